(* C04, last sentence: on a SERIAL system, the echelon base-stock policy with the echelon levels obtained from
   non-negative local levels and the local base-stock policy with those local levels generate IDENTICAL trajectories:
   the two runs are EQUAL as lists of states (every key of every end-of-period record: inventory levels, orders,
   inbound/outbound shipments, backorders, on-order, pipelines, ghost counters), for every demand sequence
   (non-negative, at most BIG = 10^100 per period, no disruptions), every horizon, every number of stages, arbitrary
   distinct stage indices, arbitrary shipment lead times, order lead times 0, and any order of the node list.

   Representation.  [ch] = the stage indices, upstream -> downstream;  [lv n] the local level of stage n.
   [serial_cfg X ch]: the configuration of every stage is that of a chain (one predecessor / successor, external
   supplier only at the head, external demand only at the tail).  The two networks are [repol B (BS o lv)] and
   [repol B (EBS o ech)] for a common base configuration [B]: they differ only in [pol];  [ech n] = lv n + the levels of
   the stages after n.  General theorem: [serial_runs_equal];  for networks built from a list of stages
   (index, level, lead time): [serial_echelon_eq_local] (+ [_obs], [_fields]) and [echelon_level_formula].
   Proof.  Under local base-stock every period start satisfies, for every internal edge p -> d,
        IL_d + (in transit to d) + (IL_p)^-  ==  lv d          (K)
   ((K) is kept by a period because every stage orders exactly the period's demand), and (K) telescopes to
        echelon_il(n) == IL_n + sum of the local levels downstream of n,
   so the echelon position minus the echelon level equals the local position minus the local level: both rules order the
   same quantity (the results of [Qred] are then Leibniz-equal), and since nothing else reads [pol] the states stay equal.
   The visit orders of the two depth-first traversals ([rev ch] and [ch]) and [descendants] are computed for chains. *)
From Coq Require Import Permutation.
From SV Require Import Sim.Model Sim.StateLemmas Sim.Inv_base Sim.Inv_book Sim.Inv_pipe Sim.Inv_node Sim.Inv_init Sim.Inv_run
  Sim.Inv_bound Sim.Single Sim.Policy_thms Sim.Delay Sim.PerPeriod Sim.Obs Sim.Wfb.

(* ------------------------------------------------------------------------------------------------------------- *)
(* two networks that differ only in the policies                                                                 *)
Definition setpol (c : ncfg) (p : policy) : ncfg :=
  {| preds := preds c; succs := succs c; ext_sup := ext_sup c; has_dem := has_dem c; slt := slt c; olt := olt c; pol := p;
     cap := cap c; init_il := init_il c; hc := hc c; pc := pc c; ith := ith c; rev := rev c; dtype := dtype c;
     init_orders := init_orders c; init_ships := init_ships c |}.
Definition repol (B : net) (f : N -> policy) : net := {| nodes := nodes B; cfg := fun n => setpol (cfg B n) (f n) |}.

Lemma fold_left_ext_in {A B} (f g : A -> B -> A) l : (forall a x, In x l -> f a x = g a x) -> forall a, fold_left f l a = fold_left g l a.
Proof. induction l as [|x r IH]; intros H a; cbn [fold_left]; [reflexivity|].
  rewrite (H a x (or_introl eq_refl)). apply IH. intros b y Hy. apply H. right. exact Hy. Qed.

Lemma place_order_repol B f g dis s n : order_qty (repol B f) s n = order_qty (repol B g) s n ->
  place_order (repol B f) dis s n = place_order (repol B g) dis s n.
Proof. intros H. unfold place_order. rewrite H. reflexivity. Qed.
Lemma ships_action_repol B f g dis s n : ships_action (repol B f) dis s n = ships_action (repol B g) dis s n.
Proof. reflexivity. Qed.
Lemma next_period_repol B f g dis s : next_period (repol B f) dis s = next_period (repol B g) dis s.
Proof. reflexivity. Qed.
Lemma visits_repol B f g : order_visit (repol B f) = order_visit (repol B g) /\ ship_visit (repol B f) = ship_visit (repol B g).
Proof. split; reflexivity. Qed.
Lemma orders_action_repol B f g dis dem s n :
  order_qty (repol B f) (recv_orders (repol B f) (gen_demand (repol B f) dem s n) n) n
  = order_qty (repol B g) (recv_orders (repol B f) (gen_demand (repol B f) dem s n) n) n ->
  orders_action (repol B f) dis dem s n = orders_action (repol B g) dis dem s n.
Proof. intros H. unfold orders_action. apply (place_order_repol B f g dis _ n H). Qed.
Lemma init_state_repol B f g : (forall n, In n (nodes B) -> init_il (cfg B n) <> None) -> init_state (repol B f) = init_state (repol B g).
Proof. intros H. unfold init_state. cbn [nodes repol]. apply fold_left_ext_in. intros a n Hn. unfold init_node.
  cbn [cfg repol setpol init_il pol customers suppliers preds succs ext_sup has_dem init_ships init_orders slt olt].
  destruct (init_il (cfg B n)) eqn:E; [reflexivity|]. exfalso. apply (H n Hn). exact E. Qed.

(* ------------------------------------------------------------------------------------------------------------- *)
(* chains                                                                                                        *)
Definition firstl (l : list N) : list N := match l with [] => [] | a :: _ => [a] end.
Definition lastl (l : list N) : list N := firstl (List.rev l).
Definition isnil (l : list N) : bool := match l with [] => true | _ => false end.
Definition serial_cfg (X : net) (ch : list N) : Prop :=
  forall pre n post, ch = pre ++ n :: post ->
    preds (cfg X n) = lastl pre /\ succs (cfg X n) = firstl post /\ ext_sup (cfg X n) = isnil pre /\ has_dem (cfg X n) = isnil post.
Definition sup_of (pre : list N) : nb := match List.rev pre with [] => Ext | p :: _ => Nd p end.
Definition cus_of (post : list N) : nb := match post with [] => Ext | c :: _ => Nd c end.

Lemma lastl_snoc l p : lastl (l ++ [p]) = [p].
Proof. unfold lastl. rewrite rev_unit. reflexivity. Qed.
Lemma sup_of_snoc l p : sup_of (l ++ [p]) = Nd p.
Proof. unfold sup_of. rewrite rev_unit. reflexivity. Qed.
Lemma isnil_snoc l p : isnil (l ++ [p]) = false.
Proof. destruct l; reflexivity. Qed.
Lemma pre_cases (pre : list N) : pre = [] \/ exists pre' p, pre = pre' ++ [p].
Proof. induction pre as [|a r _] using rev_ind; [left; reflexivity|right; exists r, a; reflexivity]. Qed.
Lemma snoc_cons {A} (l : list A) a r : (l ++ [a]) ++ r = l ++ a :: r.
Proof. rewrite <- app_assoc. reflexivity. Qed.
Lemma dedupN_nodup l : NoDup l -> dedupN l = l.
Proof. induction 1 as [|a r Ha Hr IH]; cbn [dedupN]; [reflexivity|].
  apply memN_false in Ha. rewrite Ha, IH. reflexivity. Qed.
Lemma nodup_mid {A} (pre : list A) n post : NoDup (pre ++ n :: post) ->
  ~ In n pre /\ ~ In n post /\ (forall x, In x pre -> ~ In x post) /\ NoDup pre /\ NoDup post.
Proof. intros H. destruct (nodup_app_inv pre (n :: post) H) as (N1 & N2 & D). inversion N2 as [|? ? N3 N4]; subst. repeat split.
  - intro X. apply (D n X). left. reflexivity.
  - exact N3.
  - intros x Hx X. apply (D x Hx). right. exact X.
  - exact N1.
  - exact N4. Qed.

Section Chain.
Variables (X : net) (ch : list N).
Hypothesis HndN : NoDup (nodes X).                      (* the node list: the stages in ANY order *)
Hypothesis Hsame : forall n, In n (nodes X) <-> In n ch.
Hypothesis Hnd : NoDup ch.
Hypothesis Hser : serial_cfg X ch.
Notation C := (cfg X).

Lemma nodes_length : length (nodes X) = length ch.
Proof. apply Permutation_length. apply NoDup_Permutation; assumption. Qed.

Lemma chain_sup_cus pre n post : ch = pre ++ n :: post -> suppliers (C n) = [sup_of pre] /\ customers (C n) = [cus_of post].
Proof. intros E. destruct (Hser pre n post E) as (P & Sx & Ex & D). unfold suppliers, customers. rewrite P, Sx, Ex, D. split.
  - destruct (pre_cases pre) as [->|(pre' & p & ->)]; [reflexivity|]. rewrite lastl_snoc, sup_of_snoc, isnil_snoc. reflexivity.
  - destruct post; reflexivity. Qed.

Lemma dfs_orders_chain : forall r n pre fuel vis out, ch = pre ++ n :: r -> (length r < fuel)%nat ->
  (forall x, In x (n :: r) -> ~ In x vis) ->
  dfs_orders X fuel (vis, out) n = (List.rev (n :: r) ++ vis, out ++ List.rev (n :: r)).
Proof. induction r as [|m r' IH]; intros n pre fuel vis out E Hf Hv; (destruct fuel as [|f]; [cbn [length] in Hf; lia|]); cbn [dfs_orders].
  - assert (M : memN n vis = false) by (apply memN_false, Hv; left; reflexivity). rewrite M.
    destruct (Hser pre n [] E) as (_ & Sx & _). rewrite Sx. cbn [firstl fold_left List.rev app]. reflexivity.
  - assert (M : memN n vis = false) by (apply memN_false, Hv; left; reflexivity). rewrite M.
    destruct (Hser pre n (m :: r') E) as (_ & Sx & _). rewrite Sx. cbn [firstl fold_left].
    rewrite (IH m (pre ++ [n]) f (n :: vis) out).
    + cbn [List.rev]. rewrite <- ?app_assoc. cbn [app]. rewrite <- ?app_assoc. reflexivity.
    + rewrite snoc_cons. exact E.
    + cbn [length] in Hf. lia.
    + intros x Hx [Y|Y].
      * subst x. rewrite E in Hnd. destruct (nodup_mid pre n (m :: r') Hnd) as (_ & N2 & _). contradiction.
      * apply (Hv x); [right; exact Hx|exact Y]. Qed.

Lemma dfs_ships_chain : forall r n pre fuel vis out, ch = pre ++ n :: r -> (length r < fuel)%nat ->
  (forall x, In x (n :: r) -> ~ In x vis) ->
  dfs_ships X fuel (vis, out) n = (List.rev (n :: r) ++ vis, out ++ n :: r).
Proof. induction r as [|m r' IH]; intros n pre fuel vis out E Hf Hv; (destruct fuel as [|f]; [cbn [length] in Hf; lia|]); cbn [dfs_ships].
  - assert (M : memN n vis = false) by (apply memN_false, Hv; left; reflexivity). rewrite M.
    destruct (Hser pre n [] E) as (_ & Sx & _). rewrite Sx. cbn [firstl fold_left List.rev app]. reflexivity.
  - assert (M : memN n vis = false) by (apply memN_false, Hv; left; reflexivity). rewrite M.
    destruct (Hser pre n (m :: r') E) as (_ & Sx & _). rewrite Sx. cbn [firstl fold_left fst].
    assert (E' : ch = (pre ++ [n]) ++ m :: r') by (rewrite snoc_cons; exact E).
    destruct (Hser (pre ++ [n]) m r' E') as (P & _). rewrite P, lastl_snoc. cbn [forallb].
    assert (M2 : memN n (n :: vis) = true) by (apply memN_In; left; reflexivity). rewrite M2. cbn [andb].
    rewrite (IH m (pre ++ [n]) f (n :: vis) (out ++ [n]) E').
    + cbn [List.rev]. rewrite <- !app_assoc. cbn [app]. reflexivity.
    + cbn [length] in Hf. lia.
    + intros x Hx [Y|Y].
      * subst x. rewrite E in Hnd. destruct (nodup_mid pre n (m :: r') Hnd) as (_ & N2 & _). contradiction.
      * apply (Hv x); [right; exact Hx|exact Y]. Qed.

Lemma filter_single (g : N -> bool) h : forall l, NoDup l -> In h l -> (forall x, In x l -> (g x = true <-> x = h)) -> filter g l = [h].
Proof. induction l as [|a r IH]; intros ND Hh Hg; [destruct Hh|]. inversion ND as [|? ? Ha Hr]; subst. cbn [filter].
  destruct Hh as [->|Hh].
  - rewrite (proj2 (Hg h (or_introl eq_refl)) eq_refl). f_equal.
    assert (G : forall l', (forall x, In x l' -> g x = false) -> filter g l' = []).
    { induction l' as [|b r' IH']; intros Hf; cbn [filter]; [reflexivity|]. rewrite (Hf b (or_introl eq_refl)). apply IH'. intros x Hx. apply Hf. right. exact Hx. }
    apply G. intros x Hx. destruct (g x) eqn:Eg; [|reflexivity]. apply (Hg x (or_intror Hx)) in Eg. subst. contradiction.
  - destruct (g a) eqn:Eg.
    + apply (Hg a (or_introl eq_refl)) in Eg. subst. contradiction.
    + apply IH; [exact Hr|exact Hh|]. intros x Hx. apply Hg. right. exact Hx. Qed.
Lemma sources_chain h t : ch = h :: t -> sources X = [h].
Proof. intros E. unfold sources. apply filter_single; [exact HndN|apply Hsame; rewrite E; left; reflexivity|].
  intros x Hx. apply Hsame in Hx. destruct (in_split x ch Hx) as (pre & post & E').
  destruct (Hser pre x post E') as (P & _). rewrite P. destruct (pre_cases pre) as [->|(pre' & q & ->)].
  - cbn [lastl List.rev firstl]. cbn [app] in E'. rewrite E in E'. inversion E'. split; reflexivity.
  - rewrite lastl_snoc. split; [discriminate|]. intros ->. exfalso.
    assert (Hnd' : NoDup ((pre' ++ [q]) ++ h :: post)) by (rewrite <- E'; exact Hnd).
    destruct (nodup_mid _ h post Hnd') as (N1 & _). rewrite E in E'.
    destruct pre' as [|a r]; cbn [app] in E'; inversion E'; subst; apply N1; left; reflexivity. Qed.

Lemma visits_chain h t : ch = h :: t -> order_visit X = List.rev ch /\ ship_visit X = ch.
Proof. intros E. unfold order_visit, ship_visit.
  rewrite (sources_chain h t E). cbn [fold_left]. rewrite nodes_length.
  assert (E0 : ch = [] ++ h :: t) by exact E.
  rewrite (dfs_orders_chain t h [] _ [] [] E0), (dfs_ships_chain t h [] _ [] [] E0); try (rewrite E; cbn [length]; lia); try (intros x _ []).
  cbn [snd app]. rewrite E. split; reflexivity. Qed.

Lemma desc_aux_chain : forall r n pre fuel, ch = pre ++ n :: r -> (length r <= fuel)%nat -> desc_aux X fuel n = r.
Proof. induction r as [|m r' IH]; intros n pre fuel E Hf.
  - destruct fuel as [|f]; cbn [desc_aux]; [reflexivity|]. destruct (Hser pre n [] E) as (_ & Sx & _). rewrite Sx. reflexivity.
  - destruct fuel as [|f]; [cbn [length] in Hf; lia|]. cbn [desc_aux]. destruct (Hser pre n (m :: r') E) as (_ & Sx & _). rewrite Sx.
    cbn [firstl flat_map]. rewrite app_nil_r. f_equal. apply (IH m (pre ++ [n])); [rewrite snoc_cons; exact E|cbn [length] in Hf; lia]. Qed.
Lemma descendants_chain pre n post : ch = pre ++ n :: post -> descendants X n = post.
Proof. intros E. unfold descendants. rewrite (desc_aux_chain post n pre _ E).
  - apply dedupN_nodup. rewrite E in Hnd. apply (nodup_mid pre n post Hnd).
  - rewrite nodes_length, E, app_length. cbn [length]. lia. Qed.

(* ---- the echelon inventory level telescopes ---- *)
Section Tele.
Variables (s : st) (S : N -> Q).
Hypothesis K : forall pre p d post, ch = pre ++ p :: d :: post ->
  gq s (fIL, d, Ext) + qsum (gl s (fSP, d, Nd p)) + qmax 0 (- gq s (fIL, p, Ext)) == S d.

Let G (d : N) : Q := on_hand s d + qsumf (fun p => in_transit_from s d p) (preds (C d)).
Let fb (d : N) : Q := match succs (C d) with [] => backord s d | _ => 0 end.

Lemma tele : forall r n pre, ch = pre ++ n :: r ->
  on_hand s n + qsumf G r - qsumf fb (n :: r) == gq s (fIL, n, Ext) + qsumf S r.
Proof. induction r as [|m r' IH]; intros n pre E; unfold qsumf; cbn [map qsum].
  - unfold fb. destruct (Hser pre n [] E) as (_ & Sx & _). rewrite Sx. cbn [firstl]. unfold on_hand, backord. qcases; lra.
  - assert (E' : ch = (pre ++ [n]) ++ m :: r') by (rewrite snoc_cons; exact E).
    specialize (IH m (pre ++ [n]) E'). unfold qsumf in IH. cbn [map qsum] in IH.
    unfold fb at 1. destruct (Hser pre n (m :: r') E) as (_ & Sx & _). rewrite Sx. cbn [firstl].
    unfold G at 1. destruct (Hser (pre ++ [n]) m r' E') as (P & _). rewrite P, lastl_snoc. unfold qsumf at 1. cbn [map qsum].
    pose proof (K pre n m r' E) as Kn. unfold in_transit_from, on_hand, backord in *. qcases; lra. Qed.

Lemma echelon_il_chain pre n post : ch = pre ++ n :: post -> echelon_il X s n == gq s (fIL, n, Ext) + qsumf S post.
Proof. intros E. unfold echelon_il. rewrite (descendants_chain pre n post E).
  rewrite <- (tele post n pre E).
  assert (A : qsumf (fun d => on_hand s d + qsumf (fun p => if N.eqb p n || memN p post then in_transit_from s d p else 0) (preds (C d))) post == qsumf G post).
  { apply qsumf_ext. intros d Hd. unfold G. apply Qplus_comp; [reflexivity|].
    destruct (in_split d post Hd) as (l1 & l2 & El).
    assert (E' : ch = (pre ++ n :: l1) ++ d :: l2) by (rewrite <- app_assoc; cbn [app]; rewrite <- El; exact E).
    destruct (Hser _ d l2 E') as (P & _). rewrite P.
    destruct (pre_cases l1) as [->|(l1' & p & ->)].
    - change (pre ++ [n]) with (pre ++ [n]). replace (pre ++ [n]) with (pre ++ [n]) by reflexivity.
      rewrite lastl_snoc. unfold qsumf. cbn [map qsum]. rewrite N.eqb_refl. cbn [orb]. reflexivity.
    - replace (pre ++ n :: l1' ++ [p]) with ((pre ++ n :: l1') ++ [p]) by (rewrite <- app_assoc; reflexivity).
      rewrite lastl_snoc. unfold qsumf. cbn [map qsum].
      assert (M : memN p post = true) by (apply memN_In; rewrite El; apply in_or_app; left; apply in_or_app; right; left; reflexivity).
      rewrite M, orb_true_r. reflexivity. }
  rewrite A.
  assert (Bq : qsumf fb (post ++ [n]) == qsumf fb (n :: post)).
  { unfold qsumf. rewrite map_app, qsum_app. cbn [map qsum]. lra. }
  fold fb. rewrite Bq. reflexivity. Qed.
End Tele.
End Chain.

(* ------------------------------------------------------------------------------------------------------------- *)
Lemma avg_single X s f n sup : suppliers (cfg X n) = [sup] -> avg_over_suppliers X s f n == gq s (f, n, sup).
Proof. intros H. unfold avg_over_suppliers. rewrite H. unfold qsumf, qnat. cbn [map qsum length Z.of_nat inject_Z].
  destruct (qeqb (gq s (f, n, sup) + 0) 0) eqn:E; [apply Qeq_bool_eq in E; lra|]. field. Qed.

Fixpoint after (n : N) (l : list N) : list N := match l with [] => [] | a :: r => if N.eqb a n then r else after n r end.
Lemma after_split pre n post : ~ In n pre -> after n (pre ++ n :: post) = post.
Proof. induction pre as [|a r IH]; intros H; cbn [app after].
  - rewrite N.eqb_refl. reflexivity.
  - destruct (N.eqb_spec a n) as [E|NE]; [exfalso; apply H; left; exact E|]. apply IH. intro Y. apply H. right. exact Y. Qed.
Lemma last_snoc {A} (l : list A) a d : last (l ++ [a]) d = a.
Proof. induction l as [|b r IH]; [reflexivity|]. cbn [app]. destruct (r ++ [a]) eqn:E; [destruct r; discriminate|]. cbn [last]. cbn [last] in IH. exact IH. Qed.

Section Serial.
Variables (B : net) (lv : N -> Q) (ch : list N).
Hypothesis HndN : NoDup (nodes B).
Hypothesis Hsame : forall n, In n (nodes B) <-> In n ch.
Hypothesis Hnd : NoDup ch.
Hypothesis Hser : serial_cfg B ch.
Hypothesis Hin : forall n, In n ch -> olt (cfg B n) = 0%nat /\ cap (cfg B n) = None /\ init_il (cfg B n) = Some (lv n)
                                     /\ init_orders (cfg B n) = 0 /\ init_ships (cfg B n) = 0.
Hypothesis Hout : forall n, ~ In n ch -> cfg B n = dflt_cfg.
Hypothesis Hlv : forall n, 0 <= lv n.
Hypothesis Hlv0 : forall n, ~ In n ch -> lv n == 0.

Definition ech (n : N) : Q := lv n + qsumf lv (after n ch).
Notation NW := (repol B (fun n => BS (lv n))).
Notation NW' := (repol B (fun n => EBS (ech n))).
Notation C := (cfg NW).
Definition sink : N := last ch 0%N.

Lemma HserNW : serial_cfg NW ch.  Proof. exact Hser. Qed.
Lemma HserNW' : serial_cfg NW' ch.  Proof. exact Hser. Qed.

Lemma sup_setpol c p : suppliers (setpol c p) = suppliers c.  Proof. reflexivity. Qed.
Lemma cus_setpol c p : customers (setpol c p) = customers c.  Proof. reflexivity. Qed.
Lemma sup_cus pre n post : ch = pre ++ n :: post -> suppliers (cfg B n) = [sup_of pre] /\ customers (cfg B n) = [cus_of post].
Proof. apply (chain_sup_cus B ch Hser). Qed.
Lemma sup_cusNW f pre n post : ch = pre ++ n :: post -> suppliers (cfg (repol B f) n) = [sup_of pre] /\ customers (cfg (repol B f) n) = [cus_of post].
Proof. apply (chain_sup_cus B ch Hser). Qed.
Lemma list_cases {A} (l : list A) : l = [] \/ exists h t, l = h :: t.
Proof. destruct l as [|h t]; [left; reflexivity|right; exists h, t; reflexivity]. Qed.
Lemma nd1 {A} (x : A) : NoDup [x].
Proof. constructor; [intros []|constructor]. Qed.

Lemma wfNW : wf_net NW.
Proof. constructor; intros n; destruct (in_dec N.eq_dec n ch) as [Hi|Ho].
  - destruct (in_split n ch Hi) as (pre & post & E). rewrite (proj1 (sup_cusNW _ pre n post E)). apply nd1.
  - cbn [cfg repol]. rewrite (Hout n Ho). cbn. constructor.
  - destruct (in_split n ch Hi) as (pre & post & E). rewrite (proj2 (sup_cusNW _ pre n post E)). apply nd1.
  - cbn [cfg repol]. rewrite (Hout n Ho). cbn. constructor.
  - unfold pol_ok. cbn [cfg repol setpol pol cap]. destruct (Hin n Hi) as (_ & Hc & _). rewrite Hc. split; exact I.
  - unfold pol_ok. cbn [cfg repol setpol pol cap]. rewrite (Hout n Ho). split; exact I.
  - cbn [cfg repol setpol init_orders init_ships init_il]. destruct (Hin n Hi) as (_ & _ & Hi1 & Hi2 & Hi3). rewrite Hi1, Hi2, Hi3.
    split; [lra|]. split; [lra|apply Hlv].
  - cbn [cfg repol setpol init_orders init_ships init_il]. rewrite (Hout n Ho). cbn. repeat split; lra. Qed.
Lemma woNW : forall n, ~ In n (nodes NW) ->
  preds (C n) = [] /\ succs (C n) = [] /\ ext_sup (C n) = false /\ has_dem (C n) = false /\ il0 NW n == 0.
Proof. cbn [nodes repol]. intros n Ho. assert (Ho' : ~ In n ch) by (intro Y; apply Ho; apply Hsame; exact Y). clear Ho. rename Ho' into Ho. unfold il0. cbn [cfg repol setpol preds succs ext_sup has_dem init_il pol]. rewrite (Hout n Ho).
  cbn [dflt_cfg preds succs ext_sup has_dem init_il rule]. repeat split; try reflexivity. pose proof (Hlv0 n Ho). qcases; lra. Qed.

Lemma split_neq pre n post x : ch = pre ++ n :: post -> In x pre \/ In x post -> x <> n.
Proof. intros E H Y. subst x. rewrite E in Hnd. destruct (nodup_mid pre n post Hnd) as (N1 & N2 & _). tauto. Qed.
(* the same stage cannot be split in two ways *)
Lemma split_unique pre n post pre' post' : ch = pre ++ n :: post -> ch = pre' ++ n :: post' -> pre = pre' /\ post = post'.
Proof. intros E E'. rewrite E in Hnd. destruct (nodup_mid pre n post Hnd) as (N1 & N2 & _). rewrite E in E'. clear E.
  revert pre' E' N1. induction pre as [|a r IH]; intros pre' E' N1.
  - destruct pre' as [|b r']; cbn [app] in E'; [inversion E'; split; reflexivity|]. inversion E'; subst. exfalso. apply N2. apply in_or_app. right. left. reflexivity.
  - destruct pre' as [|b r']; cbn [app] in E'; inversion E'; subst; [exfalso; apply N1; left; reflexivity|].
    assert (Hn : NoDup (r ++ n :: post)) by (inversion Hnd; assumption).
    clear Hnd. destruct (IH Hn r' H1) as [I1 I2]; [intro Y; apply N1; right; exact Y|]. subst. split; reflexivity. Qed.

(* ---- the order quantities of the two networks coincide in every state that satisfies (K) ---- *)
Definition Kedges (s : st) : Prop := forall pre p d post, ch = pre ++ p :: d :: post ->
  gq s (fIL, d, Ext) + qsum (gl s (fSP, d, Nd p)) + qmax 0 (- gq s (fIL, p, Ext)) == lv d.

Lemma order_qty_eq s pre n post : ch = pre ++ n :: post -> Kedges s -> order_qty NW s n = order_qty NW' s n.
Proof. intros E K. unfold order_qty. apply Qred_complete. unfold capped. cbn [cfg repol setpol cap pol]. apply qmin_proper; [|reflexivity].
  cbn [rule]. apply qmax_proper; [reflexivity|].
  unfold obs_ip. cbn [cfg repol setpol pol]. unfold local_ip, echelon_ip.
  destruct (sup_cus pre n post E) as [Hs Hc].
  rewrite (avg_single NW' s fOO n (sup_of pre) Hs), (avg_single NW' s fRM n (sup_of pre) Hs), (avg_single NW' s fIDI n (sup_of pre) Hs).
  rewrite (echelon_il_chain NW' ch HndN Hsame Hnd HserNW' s lv K pre n post E).
  cbn [cfg repol]. rewrite ?sup_setpol, ?cus_setpol, Hs, Hc.
  cbn [map qmin_list]. unfold qsumf. cbn [map qsum]. unfold ech.
  assert (A : after n ch = post). { rewrite E. apply after_split. rewrite E in Hnd. apply (nodup_mid pre n post Hnd). }
  rewrite A. unfold qsumf. lra. Qed.

(* ---- one period ---- *)
Hypothesis Hnonempty : ch <> [].
Section Period.
Variables (dis : N -> bool) (dem : N -> Q).
Hypothesis Hdis : forall n, dis n = false.
Hypothesis Hdem : forall n, 0 <= dem n.
Hypothesis Hbig : dem sink <= BIG.
Notation dd := (dem sink).

Lemma nodis f n k : disk (repol B f) dis n k = false.
Proof. unfold disk. rewrite Hdis. reflexivity. Qed.

Definition tgt (pre : list N) (n : N) : key := match sup_of pre with Ext => (fSP, n, Ext) | Nd p => (fOP, p, Nd n) end.
Definition tpos (pre : list N) (n : N) : nat := match sup_of pre with Ext => slt (cfg B n) | Nd _ => O end.

Lemma sup_neq pre n post p : ch = pre ++ n :: post -> sup_of pre = Nd p -> p <> n.
Proof. intros E Hp. destruct (pre_cases pre) as [->|(pre' & q & ->)]; [discriminate|]. rewrite sup_of_snoc in Hp. inversion Hp; subst q.
  apply (split_neq _ n post p E). left. apply in_or_app. right. left. reflexivity. Qed.
Lemma cus_neq pre n post c : ch = pre ++ n :: post -> cus_of post = Nd c -> c <> n.
Proof. intros E Hp. destruct post as [|q r]; [discriminate|]. inversion Hp; subst q.
  apply (split_neq pre n _ c E). right. left. reflexivity. Qed.

Lemma orders_eff s pre n post : ch = pre ++ n :: post ->
  gq s (fRM, n, sup_of pre) == 0 -> gq s (fIDI, n, sup_of pre) == 0 -> gq s (fIL, n, Ext) + gq s (fOO, n, sup_of pre) == lv n ->
  (exists x, gl (gen_demand NW dem s n) (fOP, n, cus_of post) = [x] /\ x == dd) ->
  let s' := orders_action NW dis dem s n in
  gq s' (fOO, n, sup_of pre) == gq s (fOO, n, sup_of pre) + dd /\
  gq s' (fPIO, n, cus_of post) == gq s (fPIO, n, cus_of post) + dd /\
  leq (gl s' (tgt pre n)) (add_at (tpos pre n) dd (gl s (tgt pre n))) /\
  (forall k, k <> (fOP, n, cus_of post) -> k <> tgt pre n -> gl s' k = gl s k).
Proof. intros E Hrm Hidi Hip (x & Hx & Hxd). cbv zeta. destruct (sup_cus pre n post E) as [Hs Hc].
  assert (Hn : In n ch) by (rewrite E; apply in_or_app; right; left; reflexivity).
  destruct (Hin n Hn) as (Holt & Hcap & _).
  unfold orders_action, place_order. rewrite nodis. unfold recv_orders. cbn [cfg repol]. rewrite sup_setpol, cus_setpol, Hs, Hc. cbn [fold_left].
  set (s0 := gen_demand NW dem s n) in *.
  assert (G0 : forall k, gq s0 k = gq s k) by (intros k; unfold s0, gen_demand; destruct (has_dem _); [apply gq_sl|reflexivity]).
  assert (L0 : forall k, k <> (fOP, n, cus_of post) -> gl s0 k = gl s k).
  { intros k Hk. unfold s0, gen_demand. cbn [cfg repol setpol has_dem]. destruct (Hser pre n post E) as (_ & _ & _ & Hd). rewrite Hd.
    destruct post as [|c r]; cbn [isnil]; [|reflexivity]. apply gl_sl_other. exact Hk. }
  set (s2 := recv_order_one n s0 (cus_of post)).
  assert (F2 : forall f y, f <> fIO -> f <> fDC -> f <> fPIO -> f <> fPEND -> f <> fcIO -> gq s2 (f, n, y) = gq s (f, n, y)).
  { intros f y F1 F3 F4 F5 F6. unfold s2, recv_order_one. rewrite !gq_addq_other by (intro Y; inversion Y; subst; contradiction).
    rewrite gq_sl, gq_sq_other by (intro Y; inversion Y; subst; contradiction). apply G0. }
  assert (Fio : gq s2 (fIO, n, cus_of post) = x) by (unfold s2, recv_order_one; gs; rewrite Hx; reflexivity).
  assert (Fpio : gq s2 (fPIO, n, cus_of post) = gq s (fPIO, n, cus_of post) + x) by (unfold s2, recv_order_one; gs; rewrite Hx, G0; reflexivity).
  assert (L2 : forall k, k <> (fOP, n, cus_of post) -> gl s2 k = gl s k).
  { intros k Hk. unfold s2, recv_order_one. gs. rewrite ?gl_sl_other by exact Hk. gs. apply L0. exact Hk. }
  set (oq := order_qty NW s2 n).
  assert (Hoq : oq == dd).
  { unfold oq, order_qty, obs_ip. rewrite Qred_correct. cbn [cfg repol setpol pol]. unfold local_ip. cbn [cfg repol]. rewrite sup_setpol, cus_setpol, Hs, Hc.
    cbn [map qmin_list]. unfold qsumf. cbn [map qsum]. rewrite !F2 by discriminate. rewrite Fio. unfold capped. cbn [cap setpol rule]. rewrite Hcap.
    clear - Hrm Hidi Hip Hxd Hdem Hbig. pose proof (Hdem sink). qcases; lra. }
  set (s3 := addq (addq s2 (fOQFG, n, Ext) oq) (fPFG, n, Ext) oq).
  assert (L3 : forall k, gl s3 k = gl s2 k) by (intros k; unfold s3; gs; reflexivity).
  assert (G3 : forall f y, f <> fOQFG -> f <> fPFG -> gq s3 (f, n, y) = gq s2 (f, n, y)).
  { intros f y F1 F3. unfold s3. rewrite !gq_addq_other by (intro Y; inversion Y; subst; contradiction). reflexivity. }
  unfold place_one, tgt, tpos. cbn [cfg repol setpol olt slt]. rewrite Holt. cbn [Nat.add].
  destruct (sup_of pre) as [|p] eqn:Esup.
  - repeat split.
    + gs. rewrite G3, F2 by discriminate. rewrite Hoq. reflexivity.
    + gs. rewrite G3 by discriminate. rewrite Fpio, Hxd. reflexivity.
    + gs. rewrite L3, L2 by discriminate. apply leq_add_at; [exact Hoq|apply leq_refl].
    + intros k K1 K2. gs. rewrite ?gl_sl_other by exact K2. rewrite L3. apply L2. exact K1.
  - pose proof (sup_neq pre n post p E Esup) as Hpn. repeat split.
    + gs. rewrite G3, F2 by discriminate. rewrite Hoq. reflexivity.
    + gs. rewrite G3 by discriminate. rewrite Fpio, Hxd. reflexivity.
    + gs. rewrite L3, L2 by (intro Y; inversion Y; subst; apply Hpn; reflexivity). apply leq_add_at; [exact Hoq|apply leq_refl].
    + intros k K1 K2. gs. rewrite ?gl_sl_other by exact K2. rewrite L3. apply L2. exact K1.
Qed.

Lemma ships_eff s pre n post : ch = pre ++ n :: post -> NN s ->
  gq s (fRM, n, sup_of pre) == 0 -> gq s (fIDI, n, sup_of pre) == 0 -> gq s (fODI, n, cus_of post) == 0 ->
  let e := ships_action NW dis s n in
  let rtr := hd0 (gl s (fSP, n, sup_of pre)) in
  gq e (fIL, n, Ext) == gq s (fIL, n, Ext) + rtr - gq s (fPIO, n, cus_of post) /\
  gq e (fOO, n, sup_of pre) == gq s (fOO, n, sup_of pre) - rtr /\
  gl e (fSP, n, sup_of pre) = zero0 (gl s (fSP, n, sup_of pre)) /\
  gq e (fRM, n, sup_of pre) == 0 /\ gq e (fIDI, n, sup_of pre) == 0 /\ gq e (fPIO, n, cus_of post) == 0 /\ gq e (fODI, n, cus_of post) == 0 /\
  match cus_of post with
  | Ext => forall k, k <> (fSP, n, sup_of pre) -> gl e k = gl s k
  | Nd c => exists os, 0 <= os /\ gl e (fSP, c, Nd n) = add_at (slt (cfg B c)) os (gl s (fSP, c, Nd n)) /\
             gq e (fBO, n, Nd c) + os == gq s (fBO, n, Nd c) + gq s (fPIO, n, Nd c) /\
             forall k, k <> (fSP, n, sup_of pre) -> k <> (fSP, c, Nd n) -> gl e k = gl s k
  end.
Proof. intros E HN Hrm Hidi Hodi. cbv zeta. destruct (sup_cus pre n post E) as [Hs Hc].
  unfold ships_action, recv_ship. cbn [cfg repol]. rewrite sup_setpol, Hs. cbn [fold_left].
  set (sup := sup_of pre) in *.
  set (il0 := gq s (fIL, n, Ext)).
  set (sa := recv_ship_one NW dis n s sup).
  set (rtr := hd0 (gl s (fSP, n, sup))) in *.
  assert (A_rm : gq sa (fRM, n, sup) = gq s (fRM, n, sup) + (rtr + gq s (fIDI, n, sup))) by (unfold sa, recv_ship_one; rewrite nodis; gs; reflexivity).
  assert (A_oo : gq sa (fOO, n, sup) = gq s (fOO, n, sup) + - rtr) by (unfold sa, recv_ship_one; rewrite nodis; gs; reflexivity).
  assert (A_idi : gq sa (fIDI, n, sup) = 0) by (unfold sa, recv_ship_one; rewrite nodis; gs; reflexivity).
  assert (A_sp : gl sa (fSP, n, sup) = zero0 (gl s (fSP, n, sup))) by (unfold sa, recv_ship_one; rewrite nodis; gs; reflexivity).
  assert (A_gl : forall k, k <> (fSP, n, sup) -> gl sa k = gl s k).
  { intros k Hk. unfold sa, recv_ship_one. rewrite nodis. gs. rewrite ?gl_sl_other by exact Hk. gs. reflexivity. }
  assert (A_fr : forall f y, f <> fIS -> f <> fRM -> f <> fOO -> f <> fIDI -> f <> fcIS -> gq sa (f, n, y) = gq s (f, n, y)).
  { intros f y F1 F2 F3 F4 F5. unfold sa, recv_ship_one. rewrite nodis.
    rewrite gq_addq_other, gq_sq_other, !gq_addq_other by (intro Y; inversion Y; subst; contradiction). rewrite gq_sl. apply gq_sq_other. intro Y; inversion Y; subst; contradiction. }
  unfold produce. cbn [cfg repol]. rewrite sup_setpol, Hs. cbn [map fold_left qmin_list].
  set (made := gq sa (fRM, n, sup)).
  set (sb := addq (addq (addq (addq sa (fRM, n, sup) (- made)) (fIL, n, Ext) made) (fPFG, n, Ext) (- made)) (fCP, n, Ext) made).
  unfold serve. cbn [cfg repol]. rewrite cus_setpol, Hc. cbn [fold_left].
  set (sc := sq sb (fDMFS, n, Ext) 0).
  assert (C_il : gq sc (fIL, n, Ext) = il0 + made) by (unfold sc, sb; gs; rewrite A_fr by discriminate; reflexivity).
  assert (C_rm : gq sc (fRM, n, sup) = made + - made) by (unfold sc, sb; gs; reflexivity).
  assert (C_fr : forall f y, f <> fRM -> f <> fIL -> f <> fPFG -> f <> fCP -> f <> fDMFS -> gq sc (f, n, y) = gq sa (f, n, y)).
  { intros f y F1 F2 F3 F4 F5. unfold sc, sb. rewrite gq_sq_other, !gq_addq_other by (intro Y; inversion Y; subst; contradiction). reflexivity. }
  assert (C_gl : forall k, gl sc k = gl sa k) by (intros k; unfold sc, sb; gs; reflexivity).
  assert (Hmade : made = gq s (fRM, n, sup) + (rtr + gq s (fIDI, n, sup))) by exact A_rm.
  assert (Hrtr : 0 <= rtr) by (apply hd0_nonneg, NN_l, HN).
  assert (Hoh : 0 <= qmax 0 il0 + made) by (rewrite Hmade, Hrm, Hidi; qcases; lra).
  set (cus := cus_of post) in *.
  assert (Pio : gq sc (fPIO, n, cus) = gq s (fPIO, n, cus)) by (rewrite C_fr, A_fr by discriminate; reflexivity).
  assert (Bo : gq sc (fBO, n, cus) = gq s (fBO, n, cus)) by (rewrite C_fr, A_fr by discriminate; reflexivity).
  assert (Odi : gq sc (fODI, n, cus) = gq s (fODI, n, cus)) by (rewrite C_fr, A_fr by discriminate; reflexivity).
  assert (Hb' : 0 <= gq sc (fBO, n, cus)) by (rewrite Bo; apply NN_q; [exact HN|reflexivity]).
  assert (Hi' : 0 <= gq sc (fPIO, n, cus)) by (rewrite Pio; apply NN_q; [exact HN|reflexivity]).
  assert (Hd' : 0 <= gq sc (fODI, n, cus)) by (rewrite Odi; apply NN_q; [exact HN|reflexivity]).
  pose proof (serve_calc_spec (qmax 0 il0 + made) (gq sc (fBO, n, cus)) (gq sc (fPIO, n, cus)) (gq sc (fODI, n, cus)) false Hoh Hb' Hi' Hd') as SP.
  cbv zeta in SP.
  unfold serve_one.
  assert (Esp : match cus with Ext => false | Nd c' => disk NW dis c' dSP end = false) by (destruct cus; [reflexivity|apply nodis]).
  rewrite Esp. set (o := serve_calc _ _ _ _ _) in *.
  destruct SP as (_ & _ & Sbo & _ & Sos & _ & Scons & _ & _ & _ & _ & Snsp). destruct (Snsp eq_refl) as [Sos2 Sodi].
  rewrite Bo, Pio, Odi in Scons. rewrite Hodi in Scons.
  unfold fill_rate.
  assert (Fil : il0 + made + - gq sc (fPIO, n, cus) == il0 + rtr - gq s (fPIO, n, cus)) by (rewrite Pio, Hmade, Hrm, Hidi; lra).
  destruct cus as [|c] eqn:Ecus; cbn [fst].
  - split; [gs; rewrite C_il; exact Fil|].
    split; [gs; rewrite C_fr by discriminate; rewrite A_oo; lra|].
    split; [gs; rewrite C_gl; exact A_sp|].
    split; [gs; rewrite C_rm; lra|].
    split; [gs; rewrite C_fr by discriminate; rewrite A_idi; reflexivity|].
    split; [gs; reflexivity|].
    split; [gs; exact Sodi|].
    intros k Hk. gs. rewrite C_gl. apply A_gl. exact Hk.
  - assert (Hcn : c <> n) by (apply (cus_neq pre n post c E); exact Ecus).
    split; [gs; rewrite C_il; exact Fil|].
    split; [gs; rewrite C_fr by discriminate; rewrite A_oo; lra|].
    split; [gs; rewrite ?gl_sl_other by (intro Y; inversion Y; subst; apply Hcn; reflexivity); gs; rewrite C_gl; exact A_sp|].
    split; [gs; rewrite C_rm; lra|].
    split; [gs; rewrite C_fr by discriminate; rewrite A_idi; reflexivity|].
    split; [gs; reflexivity|].
    split; [gs; exact Sodi|].
    exists (o_os o). split; [exact Sos|]. split; [|split].
    + gs. rewrite C_gl, A_gl by (intro Y; inversion Y; subst; apply Hcn; reflexivity). reflexivity.
    + gs. rewrite Sodi in Scons. lra.
    + intros k K1 K2. gs. rewrite ?gl_sl_other by exact K2. gs. rewrite C_gl. apply A_gl. exact K1.
Qed.

(* ---- frames ---- *)
Lemma K_frame s a : (forall n, gq a (fIL, n, Ext) = gq s (fIL, n, Ext)) -> (forall d p, gl a (fSP, d, Nd p) = gl s (fSP, d, Nd p)) ->
  Kedges s -> Kedges a.
Proof. intros H1 H2 K pre p d post E. rewrite !H1, H2. apply (K pre p d post E). Qed.
Lemma recv_frame s n : let a := recv_orders NW (gen_demand NW dem s n) n in
  (forall m, gq a (fIL, m, Ext) = gq s (fIL, m, Ext)) /\ (forall d x, gl a (fSP, d, x) = gl s (fSP, d, x)).
Proof. cbv zeta. unfold recv_orders.
  apply (fold_left_inv (fun a => (forall m, gq a (fIL, m, Ext) = gq s (fIL, m, Ext)) /\ (forall d x, gl a (fSP, d, x) = gl s (fSP, d, x)))).
  - intros a c _ [A1 A2]. unfold recv_order_one. split; [intros m; gs; apply A1|intros d x; gs; apply A2].
  - unfold gen_demand. destruct (has_dem (C n)); split; intros; gs; reflexivity. Qed.

Lemma fold_next_other l : forall a k, ~ In (node_of k) l ->
  gq (fold_left (next_node NW dis) l a) k = gq a k /\ gl (fold_left (next_node NW dis) l a) k = gl a k.
Proof. induction l as [|m r IH]; intros a k Hk; cbn [fold_left]; [split; reflexivity|].
  destruct (IH (next_node NW dis a m) k) as [I1 I2]; [intro Y; apply Hk; right; exact Y|]. rewrite I1, I2.
  apply next_node_other. intro Y. apply Hk. left. symmetry. exact Y. Qed.
Lemma next_eff e pre n post : ch = pre ++ n :: post ->
  gl (next_period NW dis e) (fSP, n, sup_of pre) = shift_sp (gl e (fSP, n, sup_of pre)) /\
  gl (next_period NW dis e) (fOP, n, cus_of post) = shift_op (gl e (fOP, n, cus_of post)).
Proof. intros E. destruct (sup_cus pre n post E) as [Hs Hc]. unfold next_period. cbn [nodes repol].
  assert (Hn : In n (nodes B)) by (apply Hsame; rewrite E; apply in_or_app; right; left; reflexivity).
  destruct (in_split n (nodes B) Hn) as (l1 & l2 & El). rewrite El. rewrite fold_left_app. cbn [fold_left].
  pose proof HndN as HndN'. rewrite El in HndN'. destruct (nodup_mid l1 n l2 HndN') as (N1 & N2 & _).
  set (a := fold_left (next_node NW dis) l1 e).
  assert (Ha : forall k, node_of k = n -> gl a k = gl e k) by (intros k Hk; apply fold_next_other; rewrite Hk; exact N1).
  rewrite (proj2 (fold_next_other l2 (next_node NW dis a n) (fSP, n, sup_of pre) N2)).
  rewrite (proj2 (fold_next_other l2 (next_node NW dis a n) (fOP, n, cus_of post) N2)).
  rewrite <- (Ha (fSP, n, sup_of pre) eq_refl), <- (Ha (fOP, n, cus_of post) eq_refl).
  unfold next_node. cbn [cfg repol]. rewrite sup_setpol, cus_setpol, Hs, Hc. cbn [fold_left]. rewrite nodis. split; gs; reflexivity. Qed.
Lemma shift_op_1 l : length l = 1%nat -> shift_op l = [0].
Proof. destruct l as [|a [|b r]]; cbn [length]; intros H; try discriminate. reflexivity. Qed.

(* ---- the start-of-period invariant ---- *)
Record J (s : st) : Prop := {
  j_nn : NN s; j_nd : ND NW s; j_pl : PL NW s;
  j_node : forall pre n post, ch = pre ++ n :: post ->
     gq s (fRM, n, sup_of pre) == 0 /\ gq s (fIDI, n, sup_of pre) == 0 /\
     gq s (fIL, n, Ext) + gq s (fOO, n, sup_of pre) == lv n /\
     gq s (fPIO, n, cus_of post) == 0 /\ gq s (fODI, n, cus_of post) == 0;
  j_op : forall pre p d post, ch = pre ++ p :: d :: post -> gl s (fOP, p, Nd d) = [0];
  j_k : Kedges s }.

(* ---- orders phase: stages [l] (a suffix of the chain) have ordered, most downstream first ---- *)
Record OI (s0 s : st) (l : list N) : Prop := {
  oi_q : forall k, ~ In (node_of k) l -> gq s k = gq s0 k;
  oi_f : forall f, f <> fIO -> f <> fDC -> f <> fPIO -> f <> fPEND -> f <> fcIO -> f <> fOQFG -> f <> fPFG -> f <> fOQ -> f <> fOO -> f <> fcOQ -> QF f s0 s;
  oi_sp : forall n x, (x <> Ext \/ ~ In n l) -> gl s (fSP, n, x) = gl s0 (fSP, n, x);
  oi_op : forall p c, ~ In p l -> ~ In c l -> gl s (fOP, p, Nd c) = gl s0 (fOP, p, Nd c);
  oi_done : forall pre n post, ch = pre ++ n :: post -> In n l ->
       gq s (fOO, n, sup_of pre) == gq s0 (fOO, n, sup_of pre) + dd /\
       gq s (fPIO, n, cus_of post) == gq s0 (fPIO, n, cus_of post) + dd /\
       (pre = [] -> leq (gl s (fSP, n, Ext)) (add_at (slt (cfg B n)) dd (gl s0 (fSP, n, Ext))));
  oi_bd : forall pre p d post, ch = pre ++ p :: d :: post -> l = d :: post -> leq (gl s (fOP, p, Nd d)) [0 + dd] }.

Lemma head_not_later pre n post n' post' : ch = pre ++ n :: post -> In n' post -> ch = n' :: post' -> False.
Proof. intros E Hp E'. rewrite E in Hnd. destruct (nodup_mid pre n post Hnd) as (N1 & N2 & D & _). rewrite E in E'.
  destruct pre as [|a r]; cbn [app] in E'; inversion E'; subst.
  - contradiction.
  - apply (D n'); [left; reflexivity|exact Hp]. Qed.

Lemma orders_phase s0 : J s0 -> forall l pre, ch = pre ++ l ->
  OI s0 (fold_left (orders_action NW dis dem) (List.rev l) s0) l /\
  fold_left (orders_action NW' dis dem) (List.rev l) s0 = fold_left (orders_action NW dis dem) (List.rev l) s0.
Proof. intros [J1 J2 J3 J4 J5 J6]. induction l as [|n post IH]; intros pre E.
  - cbn [List.rev fold_left]. split; [|reflexivity]. constructor; try reflexivity.
    + intros f _ _ _ _ _ _ _ _ _ _. apply QF_refl.
    + intros pre0 n post _ [].
    + intros pre0 p d post _ Y. discriminate.
  - assert (E1 : ch = (pre ++ [n]) ++ post) by (rewrite snoc_cons; exact E).
    destruct (IH (pre ++ [n]) E1) as [I Ieq]. cbn [List.rev]. rewrite !fold_left_app. cbn [fold_left]. rewrite Ieq.
    set (s := fold_left (orders_action NW dis dem) (List.rev post) s0) in *.
    destruct I as [I1 I2 I3 I4 I5 I6].
    pose proof Hnd as Hnd'. rewrite E in Hnd'. destruct (nodup_mid pre n post Hnd') as (N1 & N2 & D & _).
    destruct (J4 pre n post E) as (Krm & Kidi & Kip & Kpio & Kodi).
    assert (Q0 : forall f x, gq s (f, n, x) = gq s0 (f, n, x)) by (intros f x; apply I1; exact N2).
    (* the two networks place the same order *)
    assert (EQ : orders_action NW' dis dem s n = orders_action NW dis dem s n).
    { symmetry. apply (orders_action_repol B (fun n => BS (lv n)) (fun n => EBS (ech n))).
      apply (order_qty_eq _ pre n post E). destruct (recv_frame s n) as [R1 R2]. cbv zeta in R1, R2.
      apply (K_frame s0); [|intros d p; rewrite R2; apply I3; left; discriminate|exact J6].
      intros m. rewrite R1. apply (I2 fIL); discriminate. }
    split; [|exact EQ].
    assert (OPC : exists x, gl (gen_demand NW dem s n) (fOP, n, cus_of post) = [x] /\ x == dd).
    { unfold gen_demand. cbn [cfg repol setpol has_dem]. destruct (Hser pre n post E) as (_ & _ & _ & Hd). rewrite Hd.
      destruct post as [|c r]; cbn [isnil cus_of].
      - exists (dem n). rewrite gl_sl_same. split; [reflexivity|]. unfold sink. rewrite E, last_snoc. reflexivity.
      - specialize (I6 pre n c r E eq_refl). inversion I6 as [|x y l1 l2 Hxy Hl]; subst. inversion Hl; subst. exists x. split; [reflexivity|]. rewrite Hxy. lra. }
    pose proof (orders_eff s pre n post E) as OE. rewrite !Q0 in OE. specialize (OE Krm Kidi Kip OPC). cbv zeta in OE.
    set (s' := orders_action NW dis dem s n) in *. destruct OE as (Eoo & Epio & Etgt & Egl).
    constructor.
    + intros k Hk. unfold s'. rewrite orders_q_other by (intro Y; apply Hk; left; symmetry; exact Y). apply I1. intro Y. apply Hk. right. exact Y.
    + intros f F1 F2 F3 F4 F5 F6 F7 F8 F9 F10 m x. unfold s'. rewrite (orders_field_frame NW dis dem f s n F1 F2 F3 F4 F5 F6 F7 F8 F9 F10 m x).
      apply (I2 f); assumption.
    + intros m x Hm. rewrite Egl.
      * apply I3. destruct Hm as [Hm|Hm]; [left; exact Hm|right; intro Y; apply Hm; right; exact Y].
      * discriminate.
      * unfold tgt. destruct (sup_of pre); [|discriminate]. intro Y. inversion Y; subst. destruct Hm as [Hm|Hm]; [apply Hm; reflexivity|apply Hm; left; reflexivity].
    + intros p c Hp Hcn. rewrite Egl.
      * apply I4; intro Y; [apply Hp|apply Hcn]; right; exact Y.
      * intro Y. inversion Y; subst. apply Hp. left. reflexivity.
      * unfold tgt. destruct (sup_of pre); [discriminate|]. intro Y. inversion Y; subst. apply Hcn. left. reflexivity.
    + intros pre0 n0 post0 E0 [Hn0|Hn0].
      * subst n0. destruct (split_unique pre n post pre0 post0 E E0) as [<- <-].
        split; [rewrite Eoo; reflexivity|]. split; [rewrite Epio; reflexivity|].
        intros ->. unfold tgt, tpos in Etgt. cbn [sup_of List.rev] in Etgt. rewrite (I3 n Ext (or_intror N2)) in Etgt. exact Etgt.
      * destruct (I5 pre0 n0 post0 E0 Hn0) as (D1 & D2 & D3).
        assert (Hne : n0 <> n) by (intro Y; subst; contradiction).
        unfold s'. rewrite !orders_q_other by (cbn; exact Hne). split; [exact D1|]. split; [exact D2|].
        intros ->. exfalso. apply (head_not_later pre n post n0 post0 E Hn0 E0).
    + intros pre0 p d post0 E0 El. inversion El; subst d post0.
      assert (E2 : ch = (pre0 ++ [p]) ++ n :: post) by (rewrite snoc_cons; exact E0).
      destruct (split_unique pre n post _ post E E2) as [-> _].
      unfold tgt, tpos in Etgt. rewrite sup_of_snoc in Etgt.
      rewrite I4 in Etgt; [|intro Y; apply (D p); [apply in_or_app; right; left; reflexivity|exact Y]|exact N2].
      rewrite (J5 pre0 p n post E0) in Etgt. cbn [add_at] in Etgt. exact Etgt.
Qed.

(* ---- shipments phase: stages [pre] (a prefix of the chain) have shipped, most upstream first ---- *)
Record SI (s1 s : st) (pre : list N) : Prop := {
  si_nn : NN s;
  si_q : forall k, ~ In (node_of k) pre -> gq s k = gq s1 k;
  si_sp : forall n x, ~ In n pre -> (forall p, x = Nd p -> ~ In p pre) -> gl s (fSP, n, x) = gl s1 (fSP, n, x);
  si_bd : forall pre' p d post, ch = pre' ++ p :: d :: post -> pre = pre' ++ [p] ->
      exists os, 0 <= os /\ gl s (fSP, d, Nd p) = add_at (slt (cfg B d)) os (gl s1 (fSP, d, Nd p)) /\
         gq s (fBO, p, Nd d) + os == gq s1 (fBO, p, Nd d) + gq s1 (fPIO, p, Nd d);
  si_done : forall pre' n post, ch = pre' ++ n :: post -> In n pre ->
      gq s (fRM, n, sup_of pre') == 0 /\ gq s (fIDI, n, sup_of pre') == 0 /\ gq s (fPIO, n, cus_of post) == 0 /\ gq s (fODI, n, cus_of post) == 0 /\
      gq s (fIL, n, Ext) + gq s (fOO, n, sup_of pre') == gq s1 (fIL, n, Ext) + gq s1 (fOO, n, sup_of pre') - gq s1 (fPIO, n, cus_of post);
  si_edge : forall pre' p d post, ch = pre' ++ p :: d :: post -> In d pre ->
      gq s (fIL, d, Ext) + qsum (gl s (fSP, d, Nd p)) + gq s (fBO, p, Nd d)
      == gq s1 (fIL, d, Ext) + qsum (gl s1 (fSP, d, Nd p)) + gq s1 (fBO, p, Nd d) + gq s1 (fPIO, p, Nd d) - gq s1 (fPIO, d, cus_of post) }.

Lemma ships_phase s1 : NN s1 -> PL NW s1 ->
  (forall pre n post, ch = pre ++ n :: post ->
     gq s1 (fRM, n, sup_of pre) == 0 /\ gq s1 (fIDI, n, sup_of pre) == 0 /\ gq s1 (fODI, n, cus_of post) == 0) ->
  forall pre l, ch = pre ++ l -> SI s1 (fold_left (ships_action NW dis) pre s1) pre.
Proof. intros HN HPL H1. induction pre as [|n pre0 IH] using rev_ind; intros l E.
  - cbn [fold_left]. constructor; try reflexivity; try exact HN.
    + intros pre' p d post _ Y. destruct pre'; discriminate.
    + intros pre' n post _ [].
    + intros pre' p d post _ [].
  - rewrite snoc_cons in E. rewrite fold_left_app. cbn [fold_left].
    destruct (IH (n :: l) E) as [I0 I1 I2 I3 I4 I5].
    set (s := fold_left (ships_action NW dis) pre0 s1) in *.
    pose proof Hnd as Hnd'. rewrite E in Hnd'. destruct (nodup_mid pre0 n l Hnd') as (N1 & N2 & D & _).
    destruct (H1 pre0 n l E) as (Krm & Kidi & Kodi).
    assert (Q0 : forall f x, gq s (f, n, x) = gq s1 (f, n, x)) by (intros f x; apply I1; exact N1).
    pose proof (ships_eff s pre0 n l E I0) as SE. rewrite !Q0 in SE. specialize (SE Krm Kidi Kodi). cbv zeta in SE.
    set (e := ships_action NW dis s n) in *. destruct SE as (Eil & Eoo & Esp & Erm & Eidi & Epio & Eodi & Ecus).
    assert (Hin_n : forall x, In x (pre0 ++ [n]) <-> In x pre0 \/ x = n).
    { intros x. rewrite in_app_iff. cbn [In]. split; [intros [Y|[Y|[]]]; [left; exact Y|right; symmetry; exact Y]|intros [Y|Y]; [left; exact Y|right; left; symmetry; exact Y]]. }
    constructor.
    + apply NN_ships_action; [exact wfNW|exact I0].
    + intros k Hk. unfold e. rewrite ships_q_other by (intro Y; apply Hk; apply Hin_n; right; exact Y). apply I1. intro Y. apply Hk. apply Hin_n. left. exact Y.
    + intros m x Hm Hx.
      assert (Hmn : m <> n) by (intro Y; apply Hm; apply Hin_n; right; exact Y).
      assert (G : gl e (fSP, m, x) = gl s (fSP, m, x)).
      { destruct (cus_of l) as [|c].
        - apply Ecus. intro Y. inversion Y. contradiction.
        - destruct Ecus as (os & _ & _ & _ & Fr). apply Fr; [intro Y; inversion Y; contradiction|].
          intro Y. inversion Y; subst. apply (Hx n eq_refl). apply Hin_n. right. reflexivity. }
      rewrite G. apply I2; [intro Y; apply Hm; apply Hin_n; left; exact Y|]. intros p Hp Y. apply (Hx p Hp). apply Hin_n. left. exact Y.
    + intros pre' p d post E0 Ep. apply app_inj_tail in Ep. destruct Ep as [<- <-].
      destruct (split_unique pre0 n l pre0 (d :: post) E E0) as [_ ->]. cbn [cus_of] in Ecus.
      destruct Ecus as (os & Os0 & Os1 & Os2 & _). exists os. split; [exact Os0|]. split.
      * rewrite Os1. rewrite I2; [reflexivity| |].
        -- intro Y. apply (D d Y). left. reflexivity.
        -- intros q Hq. inversion Hq; subst q. exact N1.
      * rewrite Os2, !Q0. reflexivity.
    + intros pre' m post E0 Hm. apply Hin_n in Hm. destruct Hm as [Hm|Hm].
      * destruct (I4 pre' m post E0 Hm) as (D1 & D2 & D3 & D4 & D5).
        assert (Hmn : m <> n) by (intro Y; subst; contradiction).
        unfold e. rewrite !ships_q_other by (cbn; exact Hmn). repeat split; assumption.
      * subst m. destruct (split_unique pre0 n l pre' post E E0) as [<- <-].
        split; [exact Erm|]. split; [exact Eidi|]. split; [exact Epio|]. split; [exact Eodi|]. rewrite Eil, Eoo. lra.
    + intros pre' p d post E0 Hd. apply Hin_n in Hd.
      assert (E2 : ch = (pre' ++ [p]) ++ d :: post) by (rewrite snoc_cons; exact E0).
      assert (Hpd : p <> d) by (apply (split_neq _ d post p E2); left; apply in_or_app; right; left; reflexivity).
      destruct Hd as [Hd|Hd].
      * (* d shipped earlier *)
        assert (Hdn : d <> n) by (intro Y; subst; contradiction).
        assert (Hp0 : In p pre0).
        { destruct (in_split d pre0 Hd) as (a & b & Eab). rewrite Eab in E. rewrite <- app_assoc in E. cbn [app] in E.
          destruct (split_unique _ d _ _ _ E E2) as [Ea _]. rewrite Eab, Ea. apply in_or_app. left. apply in_or_app. right. left. reflexivity. }
        assert (Hpn : p <> n) by (intro Y; subst; contradiction).
        assert (G : gl e (fSP, d, Nd p) = gl s (fSP, d, Nd p)).
        { destruct (cus_of l) as [|c].
          - apply Ecus. intro Y. inversion Y. contradiction.
          - destruct Ecus as (os & _ & _ & _ & Fr). apply Fr; [intro Y; inversion Y; contradiction|].
            intro Y. inversion Y; subst. apply Hpn. reflexivity. }
        rewrite G. unfold e. rewrite !ships_q_other by (cbn; assumption). apply (I5 pre' p d post E0 Hd).
      * (* d = n ships now *)
        subst d. destruct (split_unique pre0 n l _ post E E2) as [-> <-].
        destruct (I3 pre' p n l E0 eq_refl) as (os & Os0 & Os1 & Os2).
        rewrite sup_of_snoc in Esp, Eil. rewrite Esp, qsum_zero0, Os1.
        assert (Hlen : (slt (cfg B n) < length (gl s1 (fSP, n, Nd p)))%nat).
        { rewrite (pl_sp NW s1 HPL n (Nd p)).
          - cbn [cfg repol setpol olt slt]. lia.
          - rewrite (proj1 (sup_cusNW _ (pre' ++ [p]) n l E)), sup_of_snoc. left. reflexivity. }
        rewrite qsum_add_at by exact Hlen. rewrite Eil.
        unfold e at 1. rewrite ships_q_other by (cbn; exact Hpd).
        rewrite Os1. lra.
Qed.

Lemma period_step s0 : J s0 ->
  run_actions NW' dis dem s0 = run_actions NW dis dem s0 /\ J (next_period NW dis (run_actions NW dis dem s0)).
Proof. intros HJ. destruct (list_cases ch) as [Y|(h & t & Eh)]; [contradiction|].
  destruct (visits_chain NW ch HndN Hsame Hnd HserNW h t Eh) as [V1 V2].
  destruct (visits_chain NW' ch HndN Hsame Hnd HserNW' h t Eh) as [V1' V2'].
  unfold run_actions. rewrite V1, V2, V1', V2'.
  destruct (orders_phase s0 HJ ch [] eq_refl) as [OIc Oeq]. rewrite Oeq.
  set (s1 := fold_left (orders_action NW dis dem) (List.rev ch) s0) in *.
  split; [reflexivity|].
  destruct HJ as [J1 J2 J3 J4 J5 J6]. destruct OIc as [O1 O2 O3 O4 O5 O6].
  assert (A1 : NN s1 /\ ND NW s1 /\ PL NW s1).
  { unfold s1. apply (fold_left_inv (fun a => NN a /\ ND NW a /\ PL NW a)); [|split; [exact J1|split; [exact J2|exact J3]]].
    intros a x _ (Na & Da & La). split; [apply NN_orders_action; [exact wfNW|exact Hdem|exact Na]|].
    split; [apply ND_orders_action; [exact wfNW|exact Da]|apply PL_orders_action; exact La]. }
  destruct A1 as (NN1 & ND1 & PL1).
  set (e := fold_left (ships_action NW dis) ch s1).
  assert (A2 : NN e /\ ND NW e /\ PL NW e).
  { unfold e. apply (fold_left_inv (fun a => NN a /\ ND NW a /\ PL NW a)); [|split; [exact NN1|split; [exact ND1|exact PL1]]].
    intros a x _ (Na & Da & La). split; [apply NN_ships_action; [exact wfNW|exact Na]|].
    split; [apply (ND_ships_action NW dis dem wfNW a x Na Da)|apply PL_ships_action; exact La]. }
  destruct A2 as (NNe & NDe & PLe).
  assert (H1 : forall pre n post, ch = pre ++ n :: post ->
     gq s1 (fRM, n, sup_of pre) == 0 /\ gq s1 (fIDI, n, sup_of pre) == 0 /\ gq s1 (fODI, n, cus_of post) == 0).
  { intros pre n post E. destruct (J4 pre n post E) as (K1 & K2 & _ & _ & K5).
    rewrite (O2 fRM), (O2 fIDI), (O2 fODI) by discriminate. repeat split; assumption. }
  assert (Ech : ch = ch ++ []) by (rewrite app_nil_r; reflexivity).
  destruct (ships_phase s1 NN1 PL1 H1 ch [] Ech) as [_ _ _ _ S4 S5]. fold e in S4, S5.
  set (s' := next_period NW dis e).
  assert (NF : forall f n x, f <> fLOST -> f <> fIS -> f <> fOQ -> f <> fIO -> f <> fOS -> f <> fOQFG -> f <> fDMFS -> f <> fFR -> gq s' (f, n, x) = gq e (f, n, x)).
  { intros f n x F1 F2 F3 F4 F5 F6 F7 F8. apply (next_period_frame NW dis f e F1 F2 F3 F4 F5 F6 F7 F8). }
  assert (Hmid : forall pre n post, ch = pre ++ n :: post -> In n ch) by (intros pre n post E; rewrite E; apply in_or_app; right; left; reflexivity).
  constructor.
  - apply NN_next_period. exact NNe.
  - apply ND_next_period; [exact dem|exact NDe].
  - apply PL_next_period. exact PLe.
  - intros pre n post E. pose proof (Hmid pre n post E) as Hn. rewrite !NF by discriminate.
    destruct (S4 pre n post E Hn) as (D1 & D2 & D3 & D4 & D5). destruct (O5 pre n post E Hn) as (P1 & P2 & _).
    destruct (J4 pre n post E) as (K1 & K2 & K3 & K4 & K5).
    repeat split; try assumption. rewrite D5, P1, P2. rewrite (O2 fIL) by discriminate. lra.
  - intros pre p d post E. destruct (next_eff e pre p (d :: post) E) as [_ Y]. cbn [cus_of] in Y. fold s' in Y. rewrite Y. apply shift_op_1.
    rewrite (pl_op NW e PLe p d).
    + cbn [cfg repol setpol olt]. rewrite (proj1 (Hin d (Hmid (pre ++ [p]) d post ltac:(rewrite snoc_cons; exact E)))). reflexivity.
    + cbn [cfg repol setpol succs]. destruct (Hser pre p (d :: post) E) as (_ & Sx & _). rewrite Sx. left. reflexivity.
  - intros pre p d post E.
    assert (E2 : ch = (pre ++ [p]) ++ d :: post) by (rewrite snoc_cons; exact E).
    destruct (next_eff e (pre ++ [p]) d post E2) as [Y _]. rewrite sup_of_snoc in Y. fold s' in Y. rewrite Y, qsum_shift_sp. rewrite !NF by discriminate.
    pose proof (nd_bo NW e NDe p) as B1. rewrite (proj2 (sup_cusNW _ pre p (d :: post) E)) in B1. unfold SF, qsumf in B1. cbn [cus_of map qsum] in B1.
    pose proof (nd_bo NW s0 J2 p) as B0. rewrite (proj2 (sup_cusNW _ pre p (d :: post) E)) in B0. unfold SF, qsumf in B0. cbn [cus_of map qsum] in B0.
    pose proof (S5 pre p d post E (Hmid _ _ _ E2)) as SE.
    destruct (O5 pre p (d :: post) E (Hmid _ _ _ E)) as (_ & P2 & _). cbn [cus_of] in P2.
    destruct (O5 (pre ++ [p]) d post E2 (Hmid _ _ _ E2)) as (_ & P2' & _).
    destruct (J4 pre p (d :: post) E) as (_ & _ & _ & K4 & _). cbn [cus_of] in K4.
    destruct (J4 (pre ++ [p]) d post E2) as (_ & _ & _ & K4' & _).
    rewrite (O2 fIL), (O2 fBO) in SE by discriminate. rewrite (O3 d (Nd p)) in SE by (left; discriminate).
    pose proof (J6 pre p d post E) as K0. lra.
Qed.
End Period.

(* ---- the initial state ---- *)
Lemma J_init : J (init_state NW).
Proof.
  assert (Hmid0 : forall pre n post, ch = pre ++ n :: post -> In n ch) by (intros pre n post E; rewrite E; apply in_or_app; right; left; reflexivity).
  assert (Hmid : forall pre n post, ch = pre ++ n :: post -> In n (nodes NW)) by (intros pre n post E; cbn [nodes repol]; apply Hsame; apply (Hmid0 pre n post E)).
  assert (Hil : forall pre n post, ch = pre ++ n :: post -> gq (init_state NW) (fIL, n, Ext) = lv n).
  { intros pre n post E. destruct (init_Qn NW n (Hmid pre n post E)) as (Q1 & _). rewrite Q1. unfold il0. cbn [cfg repol setpol init_il].
    destruct (Hin n (Hmid0 pre n post E)) as (_ & _ & Hi & _). rewrite Hi. reflexivity. }
  constructor.
  - apply NN_init. exact wfNW.
  - apply ND_init; [exact wfNW|exact woNW].
  - apply PL_init. exact woNW.
  - intros pre n post E. rewrite !init_zero by discriminate. rewrite (Hil pre n post E).
    destruct (init_Qn NW n (Hmid pre n post E)) as (_ & Q2 & _).
    destruct (Q2 (sup_of pre)) as [Q2a _]; [rewrite (proj1 (sup_cusNW _ pre n post E)); left; reflexivity|]. rewrite Q2a.
    unfold oo0. cbn [cfg repol setpol init_ships init_orders].
    destruct (Hin n (Hmid0 pre n post E)) as (_ & _ & _ & Hi2 & Hi3). rewrite Hi2, Hi3. rewrite ?init_zero by discriminate. unfold qnat. repeat split; lra.
  - intros pre p d post E. destruct (init_Qn NW p (Hmid pre p (d :: post) E)) as (_ & _ & Q3).
    rewrite (Q3 (Nd d)) by (rewrite (proj2 (sup_cusNW _ pre p (d :: post) E)); left; reflexivity).
    cbn [opinit cfg repol setpol olt init_orders].
    rewrite (proj1 (Hin d (Hmid0 (pre ++ [p]) d post ltac:(rewrite snoc_cons; exact E)))). reflexivity.
  - intros pre p d post E. assert (E2 : ch = (pre ++ [p]) ++ d :: post) by (rewrite snoc_cons; exact E).
    rewrite (Hil _ _ _ E2), (Hil _ _ _ E).
    destruct (init_Qn NW d (Hmid _ _ _ E2)) as (_ & Q2 & _).
    destruct (Q2 (Nd p)) as [_ Q2b]; [rewrite (proj1 (sup_cusNW _ _ d post E2)), sup_of_snoc; left; reflexivity|]. rewrite Q2b.
    unfold spinit. cbn [cfg repol setpol init_ships init_orders olt slt].
    destruct (Hin d (Hmid0 _ _ _ E2)) as (_ & _ & _ & _ & Hi3). rewrite Hi3. rewrite !qsum_app, !qsum_repeat. cbn [qsum].
    pose proof (Hlv p). qcases; lra.
Qed.

Definition input_ok (i : (N -> bool) * (N -> Q)) : Prop := (forall n, fst i n = false) /\ (forall n, 0 <= snd i n) /\ snd i sink <= BIG.

Lemma run_from_eq : forall inputs s, J s -> Forall input_ok inputs -> run_from NW' s inputs = run_from NW s inputs.
Proof. induction inputs as [|[dis dem] r IH]; intros s HJ Hi; cbn [run_from]; [reflexivity|].
  inversion Hi as [|? ? (H1 & H2 & H3) Hr]; subst. cbn [fst snd] in *.
  destruct (period_step dis dem H1 H2 H3 s HJ) as [P1 P2]. rewrite P1. f_equal.
  rewrite (next_period_repol B (fun m => EBS (ech m)) (fun m => BS (lv m))).
  apply IH; assumption. Qed.

Theorem serial_runs_equal inputs : Forall input_ok inputs -> run NW' inputs = run NW inputs.
Proof. intros Hi. unfold run.
  rewrite (init_state_repol B (fun n => EBS (ech n)) (fun n => BS (lv n))).
  - apply run_from_eq; [exact J_init|exact Hi].
  - intros n Hn. apply Hsame in Hn. destruct (Hin n Hn) as (_ & _ & Hi' & _). rewrite Hi'. discriminate. Qed.
End Serial.

(* ------------------------------------------------------------------------------------------------------------- *)
(* a concrete representation: [stages] = the list of stages, upstream -> downstream: (index, local base-stock level,   *)
(* shipment lead time); [order] = the node list of the network (the same indices in ANY order; it fixes the order in  *)
(* which the simulator initialises and shifts the nodes); [h n], [p n] holding / stockout cost rates                 *)
Definition stage := (N * Q * nat)%type.
Definition sidx (x : stage) : N := fst (fst x).
Definition slev (x : stage) : Q := snd (fst x).
Definition sslt (x : stage) : nat := snd x.
Definition lev (stages : list stage) : N -> Q := tbl 0 (map (fun x => (sidx x, slev x)) stages).
Definition lead (stages : list stage) : N -> nat := tbl 0%nat (map (fun x => (sidx x, sslt x)) stages).

Fixpoint split_at (n : N) (l : list N) : option (list N * list N) :=
  match l with
  | [] => None
  | a :: r => if N.eqb a n then Some ([], r) else match split_at n r with Some (u, v) => Some (a :: u, v) | None => None end
  end.
Lemma split_at_spec n pre post : ~ In n pre -> split_at n (pre ++ n :: post) = Some (pre, post).
Proof. induction pre as [|a r IH]; intros H; cbn [app split_at].
  - rewrite N.eqb_refl. reflexivity.
  - destruct (N.eqb_spec a n) as [E|NE]; [exfalso; apply H; left; exact E|]. rewrite IH; [reflexivity|]. intro Y. apply H. right. exact Y. Qed.
Lemma split_at_none n l : ~ In n l -> split_at n l = None.
Proof. induction l as [|a r IH]; intros H; cbn [split_at]; [reflexivity|].
  destruct (N.eqb_spec a n) as [E|NE]; [exfalso; apply H; left; exact E|]. rewrite IH; [reflexivity|]. intro Y. apply H. right. exact Y. Qed.

Definition base_cfg (h p : N -> Q) (stages : list stage) (n : N) : ncfg :=
  match split_at n (map sidx stages) with
  | None => dflt_cfg
  | Some (u, v) =>
      {| preds := lastl u; succs := firstl v; ext_sup := isnil u; has_dem := isnil v; slt := lead stages n; olt := 0; pol := BS 0;
         cap := None; init_il := Some (lev stages n); hc := h n; pc := p n; ith := None; rev := 0; dtype := None;
         init_orders := 0; init_ships := 0 |}
  end.
Definition base (h p : N -> Q) (order : list N) (stages : list stage) : net := {| nodes := order; cfg := base_cfg h p stages |}.
(* the local base-stock system and the echelon base-stock system with the converted levels *)
Definition NWloc (h p : N -> Q) (order : list N) (stages : list stage) : net := repol (base h p order stages) (fun n => BS (lev stages n)).
Definition NWech (h p : N -> Q) (order : list N) (stages : list stage) : net :=
  repol (base h p order stages) (fun n => EBS (ech (lev stages) (map sidx stages) n)).

(* the echelon level of a stage = its local level + the local levels of all stages downstream of it *)
Lemma echelon_level_formula stages pre x post : NoDup (map sidx stages) -> stages = pre ++ x :: post ->
  ech (lev stages) (map sidx stages) (sidx x) == slev x + qsum (map slev post).
Proof. intros ND E. unfold ech.
  assert (L : forall y, In y stages -> lev stages (sidx y) = slev y).
  { clear E. unfold lev. induction stages as [|a r IH]; intros y Hy; [destruct Hy|]. cbn [map tbl].
    destruct (N.eqb_spec (sidx y) (sidx a)) as [Es|NEs].
    - destruct Hy as [<-|Hy]; [reflexivity|]. exfalso. cbn [map] in ND. inversion ND as [|? ? Hna _]; subst. apply Hna. rewrite <- Es. apply in_map. exact Hy.
    - destruct Hy as [<-|Hy]; [congruence|]. apply IH; [cbn [map] in ND; inversion ND; assumption|exact Hy]. }
  rewrite (L x) by (rewrite E; apply in_or_app; right; left; reflexivity).
  assert (A : after (sidx x) (map sidx stages) = map sidx post).
  { rewrite E, map_app. cbn [map]. apply after_split. rewrite E, map_app in ND. cbn [map] in ND. apply (nodup_mid _ _ _ ND). }
  rewrite A. unfold qsumf. rewrite map_map.
  assert (M : map (fun y => lev stages (sidx y)) post = map slev post).
  { apply map_ext_in. intros y Hy. apply L. rewrite E. apply in_or_app. right. right. exact Hy. }
  rewrite M. reflexivity. Qed.

Definition inputs_ok (stages : list stage) (inputs : list ((N -> bool) * (N -> Q))) : Prop :=
  Forall (fun i => (forall n, fst i n = false) /\ (forall n, 0 <= snd i n) /\ snd i (last (map sidx stages) 0%N) <= BIG) inputs.

Theorem serial_echelon_eq_local h p order stages inputs :
  stages <> [] -> NoDup (map sidx stages) -> Permutation order (map sidx stages) ->
  Forall (fun x => 0 <= slev x) stages -> inputs_ok stages inputs ->
  run (NWech h p order stages) inputs = run (NWloc h p order stages) inputs.
Proof. intros Hne ND Hperm Hl Hi. unfold NWech, NWloc.
  assert (Hsp : forall u n v, map sidx stages = u ++ n :: v -> split_at n (map sidx stages) = Some (u, v)).
  { intros u n v E. rewrite E. apply split_at_spec. rewrite E in ND. apply (nodup_mid _ _ _ ND). }
  apply (serial_runs_equal (base h p order stages) (lev stages) (map sidx stages)).
  - cbn [nodes base]. apply (Permutation_NoDup (Permutation_sym Hperm) ND).
  - intros n. cbn [nodes base]. split; [apply (Permutation_in n Hperm)|apply (Permutation_in n (Permutation_sym Hperm))].
  - exact ND.
  - intros u n v E. cbn [cfg base]. unfold base_cfg. rewrite (Hsp u n v E). cbn [preds succs ext_sup has_dem]. repeat split; reflexivity.
  - intros n Hn. destruct (in_split n _ Hn) as (u & v & E). cbn [cfg base]. unfold base_cfg. rewrite (Hsp u n v E).
    cbn [olt cap init_il init_orders init_ships]. repeat split; reflexivity.
  - intros n Hn. cbn [cfg base]. unfold base_cfg. rewrite (split_at_none n _ Hn). reflexivity.
  - intros n. unfold lev. clear - Hl. induction stages as [|a r IH]; cbn [map tbl]; [lra|]. inversion Hl; subst.
    destruct (N.eqb n (sidx a)); [assumption|apply IH; assumption].
  - intros n Hn. unfold lev. rewrite tbl_outside; [reflexivity|]. rewrite map_map. cbn [fst]. exact Hn.
  - destruct stages; [congruence|discriminate].
  - exact Hi. Qed.

(* the same statement on the observables the harness compares (every per-node record field, pipelines, costs) *)
Corollary serial_echelon_eq_local_obs h p order stages inputs :
  stages <> [] -> NoDup (map sidx stages) -> Permutation order (map sidx stages) ->
  Forall (fun x => 0 <= slev x) stages -> inputs_ok stages inputs ->
  obs_run (NWech h p order stages) inputs = obs_run (NWloc h p order stages) inputs.
Proof. intros Hne ND Hperm Hl Hi. unfold obs_run. rewrite (serial_echelon_eq_local h p order stages inputs Hne ND Hperm Hl Hi). reflexivity. Qed.
Corollary serial_echelon_eq_local_fields h p order stages inputs t k :
  stages <> [] -> NoDup (map sidx stages) -> Permutation order (map sidx stages) ->
  Forall (fun x => 0 <= slev x) stages -> inputs_ok stages inputs ->
  gq (nth t (run (NWech h p order stages) inputs) empty_st) k = gq (nth t (run (NWloc h p order stages) inputs) empty_st) k /\
  gl (nth t (run (NWech h p order stages) inputs) empty_st) k = gl (nth t (run (NWloc h p order stages) inputs) empty_st) k.
Proof. intros Hne ND Hperm Hl Hi. rewrite (serial_echelon_eq_local h p order stages inputs Hne ND Hperm Hl Hi). split; reflexivity. Qed.

(* ---- a concrete 3-stage instance (indices 7 -> 3 -> 5): the hypotheses are satisfiable, the echelon levels are the
   suffix sums, the trajectory is non-trivial (in period 2 the sink and both upstream stages are short), and the two
   runs are equal also by direct evaluation ---- *)
Definition ex_stages : list stage := [(7%N, 4, 1%nat); (3%N, 6, 2%nat); (5%N, 5, 1%nat)].
Definition ex_order : list N := [3%N; 5%N; 7%N].
Definition ex_dems : list Q := [3; 9; 12; 2; 8; 0; 15; 1].
Definition ex_inputs : list ((N -> bool) * (N -> Q)) := map (fun d => (fun _ : N => false, fun _ : N => d)) ex_dems.
Definition ex_h (n : N) : Q := 1.
Definition ex_p (n : N) : Q := 10.

Example serial_nonvacuous :
  ex_stages <> [] /\ NoDup (map sidx ex_stages) /\ Permutation ex_order (map sidx ex_stages) /\ Forall (fun x => 0 <= slev x) ex_stages /\ inputs_ok ex_stages ex_inputs /\
  map (fun n => pol (cfg (NWloc ex_h ex_p ex_order ex_stages) n)) [7%N; 3%N; 5%N] = [BS 4; BS 6; BS 5] /\
  map (fun n => match pol (cfg (NWech ex_h ex_p ex_order ex_stages) n) with EBS x => qobs x | _ => (0, 0)%Z end) [7%N; 3%N; 5%N] = [(15, 1); (11, 1); (5, 1)]%Z /\
  (let e := nth 1 (run (NWloc ex_h ex_p ex_order ex_stages) ex_inputs) empty_st in
   gq e (fIL, 5%N, Ext) < 0 /\ gq e (fIL, 3%N, Ext) < 0 /\ 0 < gq e (fBO, 3%N, Nd 5%N) /\ 0 < gq e (fBO, 7%N, Nd 3%N) /\ 0 < gq e (fOQFG, 7%N, Ext)) /\
  (let e := nth 5 (run (NWloc ex_h ex_p ex_order ex_stages) ex_inputs) empty_st in 0 < gq e (fIL, 7%N, Ext) /\ 0 < qsum (gl e (fSP, 5%N, Nd 3%N))) /\
  obs_run (NWech ex_h ex_p ex_order ex_stages) ex_inputs = obs_run (NWloc ex_h ex_p ex_order ex_stages) ex_inputs.
Proof.
  split; [discriminate|].
  split; [cbn; repeat constructor; cbn; intros Y; repeat (destruct Y as [Y|Y]; [discriminate|]); exact Y|].
  split; [cbn; apply (perm_trans (l' := [3%N; 7%N; 5%N])); [apply perm_skip, perm_swap|apply perm_swap]|].
  split; [repeat constructor; cbn; lra|].
  split.
  { unfold inputs_ok, ex_inputs. apply Forall_forall. intros i Hi. apply in_map_iff in Hi. destruct Hi as (d & <- & Hd). cbn [fst snd].
    cbn [ex_dems In] in Hd.
    repeat (destruct Hd as [<-|Hd]; [split; [intros; reflexivity|split; [intros; lra|apply Qle_bool_iff; vm_compute; reflexivity]]|]). destruct Hd. }
  split; [vm_compute; reflexivity|].
  split; [vm_compute; reflexivity|].
  split; [vm_compute; repeat split; reflexivity|].
  split; [vm_compute; repeat split; reflexivity|].
  vm_compute. reflexivity.
Qed.

Print Assumptions serial_runs_equal.
Print Assumptions serial_echelon_eq_local.
Print Assumptions serial_echelon_eq_local_obs.
Print Assumptions serial_echelon_eq_local_fields.
Print Assumptions echelon_level_formula.
Print Assumptions serial_nonvacuous.
Check serial_runs_equal.
