(* C15 / C13 bridge, part 5: the lead-time identity of the reference recursion, any lead time L = length of the window:
   the inventory level L periods after an ordering decision is the position after that ordering minus the demand of the L periods
   in between:  IL(t+L) = Y(t) - (d(t+1) + ... + d(t+L));  before the first L periods have passed, IL(t) = x0 + (the initial
   window entries that arrived) - d(0) - ... - d(t). *)
From SV Require Import Sim.SSim Sim.SSim_proofs.

Lemma ref_state_app s S : forall a b il w,
  ref_state s S il w (a ++ b) = ref_state s S (fst (ref_state s S il w a)) (snd (ref_state s S il w a)) b.
Proof. induction a as [|d r IH]; intros b il w; cbn [app ref_state fst snd]; [reflexivity|].
  destruct (ref_step s S il w d) as [[il' w'] q]. apply IH. Qed.

Lemma ref_step_len s S il w d : length (snd (fst (ref_step s S il w d))) = length w.
Proof. unfold ref_step. cbn [fst snd]. destruct w as [|a w0]; cbn [app tl length]; [reflexivity|]. rewrite app_length. cbn [length]. lia. Qed.
Lemma ref_state_len s S : forall ds il w, length (snd (ref_state s S il w ds)) = length w.
Proof. induction ds as [|d r IH]; intros il w; cbn [ref_state snd]; [reflexivity|].
  pose proof (ref_step_len s S il w d) as E. destruct (ref_step s S il w d) as [[il' w'] q]. cbn [fst snd] in E. rewrite IH. exact E. Qed.

(* the records of the run are the successive states *)
Lemma ref_run_nth s S : forall ds il w t d0, (t < length ds)%nat ->
  fst (nth t (ref_run s S il w ds) d0) = ref_state s S il w (firstn (Datatypes.S t) ds).
Proof. induction ds as [|d r IH]; intros il w t d0 Ht; cbn [length] in Ht; [lia|].
  cbn [ref_run firstn ref_state]. destruct (ref_step s S il w d) as [[il' w'] q]. destruct t as [|t]; cbn [nth].
  - cbn [firstn ref_state fst]. reflexivity.
  - apply IH. lia. Qed.

(* while the window drains (at most L periods), nothing ordered in these periods arrives *)
Lemma ref_state_drain s S : forall ds il w, (length ds <= length w)%nat ->
  fst (ref_state s S il w ds) == il + qsum (firstn (length ds) w) - qsum ds.
Proof. induction ds as [|d r IH]; intros il w Hl; cbn [ref_state length firstn qsum fst]; [lra|].
  destruct w as [|a w0]; cbn [length] in Hl; [lia|].
  unfold ref_step. cbn [app hd0 tl]. set (q := ss_order s S (il + qsum (a :: w0) - d)).
  rewrite IH by (rewrite app_length; cbn [length]; lia).
  rewrite firstn_app. replace (length r - length w0)%nat with 0%nat by lia. cbn [firstn]. rewrite app_nil_r. cbn [firstn qsum]. lra. Qed.

(* THE LEAD-TIME IDENTITY: from the state (il1, w1) reached after any prefix, L = length of the window periods later *)
Theorem ref_lead_time_identity s S il w pre mid : length mid = length w ->
  fst (ref_state s S il w (pre ++ mid)) == rec_pos (ref_state s S il w pre, 0) - qsum mid.
Proof. intro Hm. rewrite ref_state_app. destruct (ref_state s S il w pre) as [il1 w1] eqn:E. cbn [fst snd rec_pos].
  assert (Hl : length w1 = length w) by (pose proof (ref_state_len s S pre il w) as X; rewrite E in X; exact X).
  rewrite ref_state_drain by lia. rewrite Hm, <- Hl, firstn_all. reflexivity. Qed.

(* read on the run: IL at the end of period t+L = (position after ordering in period t) - demand of the periods t+1..t+L *)
Corollary ref_run_lead_time s S il w ds t d0 : (t + length w < length ds)%nat ->
  fst (fst (nth (t + length w) (ref_run s S il w ds) d0))
  == rec_pos (nth t (ref_run s S il w ds) d0) - qsum (firstn (length w) (skipn (Datatypes.S t) ds)).
Proof. intro Ht.
  assert (E1 : fst (nth (t + length w) (ref_run s S il w ds) d0) = ref_state s S il w (firstn (Datatypes.S t) ds ++ firstn (length w) (skipn (Datatypes.S t) ds))).
  { rewrite ref_run_nth by lia. f_equal. replace (Datatypes.S (t + length w)) with (Datatypes.S t + length w)%nat by lia.
    rewrite <- (firstn_skipn (Datatypes.S t) ds) at 1. rewrite firstn_app, firstn_firstn.
    replace (Nat.min (Datatypes.S t + length w) (Datatypes.S t)) with (Datatypes.S t) by lia.
    rewrite firstn_length. replace (Datatypes.S t + length w - Nat.min (Datatypes.S t) (length ds))%nat with (length w) by lia. reflexivity. }
  rewrite E1. rewrite ref_lead_time_identity.
  2:{ rewrite firstn_length, skipn_length. lia. }
  pose proof (ref_run_nth s S ds il w t d0 ltac:(lia)) as E2.
  destruct (nth t (ref_run s S il w ds) d0) as [[il2 w2] q2]. cbn [fst] in E2. rewrite <- E2. unfold rec_pos. reflexivity. Qed.

(* warm-up (t < L, window initially all zero): IL(t) = x0 - d(0) - ... - d(t) *)
Corollary ref_run_warm_up s S x0 L ds t d0 : (t < length ds)%nat -> (t < L)%nat ->
  fst (fst (nth t (ref_run s S x0 (repeat 0 L) ds) d0)) == x0 - qsum (firstn (Datatypes.S t) ds).
Proof. intros Ht HL. rewrite ref_run_nth by exact Ht. rewrite ref_state_drain by (rewrite firstn_length, repeat_length; lia).
  assert (Z : forall k m, qsum (firstn k (repeat 0 m)) == 0).
  { induction k as [|k IH]; intros [|m]; cbn [repeat firstn qsum]; try lra. rewrite IH. lra. }
  rewrite Z. lra. Qed.
