(* C15 / C13 bridge, part 1: PATHWISE. For EVERY demand sequence the simulator model's trajectory of a single (s,S) stage
   (NWS of SSim.v: external supplier, shipment lead time L >= 0, no order lead time, initial inventory level x0, undisrupted)
   is the reference recursion [ref_run]: inventory level, on-order quantity, order quantity and period cost of every period.
   Technique and lemmas of Sim/Single.v (start-of-period invariant on the whole state, one period, induction on the run). *)
From SV Require Import Sim.StateLemmas Sim.Inv_base Sim.Inv_init.
From SV Require Import Sim.SSim.

Lemma ss_order_nonneg s S ip : s <= S -> 0 <= ss_order s S ip.
Proof. intro H. unfold ss_order. destruct (qleb_spec ip s) as [[A E]|[A E]]; rewrite E; lra. Qed.
Lemma ss_order_proper s S a b : a == b -> ss_order s S a == ss_order s S b.
Proof. intro H. unfold ss_order. destruct (qleb_spec a s) as [[A E]|[A E]], (qleb_spec b s) as [[A' E']|[A' E']]; rewrite E, E'; lra. Qed.

Section SSStage.
Variables (s S h p : Q) (L : nat) (x0 lo : Q).
Hypothesis s_lt_S : s < S.
Hypothesis lo_s : lo <= s.
Hypothesis lo_x0 : lo <= x0.
Notation NW := (NWS s S h p L x0).
Notation n1 := 1%N.

(* start-of-period invariant; il = inventory level, w = the last L order quantities, oldest first *)
Record JS (st0 : st) (il : Q) (w : list Q) : Prop := {
  js_len : length w = L;
  js_nn : Forall (fun x => 0 <= x) w;
  js_il : gq st0 (fIL, n1, Ext) == il;
  js_lo : lo <= il + qsum w;
  js_oo : gq st0 (fOO, n1, Ext) == qsum w;
  js_sp : leq (gl st0 (fSP, n1, Ext)) (shift_sp (0 :: w));
  js_rm : gq st0 (fRM, n1, Ext) == 0;
  js_idi : gq st0 (fIDI, n1, Ext) == 0;
  js_pio : gq st0 (fPIO, n1, Ext) == 0;
  js_odi : gq st0 (fODI, n1, Ext) == 0;
  js_oq : gq st0 (fOQ, n1, Ext) == 0;
  js_bo : 0 <= gq st0 (fBO, n1, Ext) }.

Lemma ss_visits : order_visit NW = [n1] /\ ship_visit NW = [n1].
Proof. split; reflexivity. Qed.

Variables (dis : N -> bool) (dem : N -> Q).
Lemma ss_no_disruption k : disk NW dis n1 k = false.
Proof. unfold disk. cbn. destruct k; apply andb_false_r. Qed.

Lemma ss_orders_eff st0 il w : JS st0 il w -> 0 <= dem n1 -> dem n1 + (S - lo) <= BIG ->
  let s1 := orders_action NW dis dem st0 n1 in
  let q := ss_order s S (il + qsum w - dem n1) in
  gq s1 (fIL, n1, Ext) = gq st0 (fIL, n1, Ext) /\ gq s1 (fRM, n1, Ext) = gq st0 (fRM, n1, Ext) /\ gq s1 (fIDI, n1, Ext) = gq st0 (fIDI, n1, Ext) /\
  gq s1 (fODI, n1, Ext) = gq st0 (fODI, n1, Ext) /\ gq s1 (fBO, n1, Ext) = gq st0 (fBO, n1, Ext) /\
  gq s1 (fPIO, n1, Ext) = gq st0 (fPIO, n1, Ext) + dem n1 /\
  gq s1 (fOO, n1, Ext) == gq st0 (fOO, n1, Ext) + q /\
  gq s1 (fOQ, n1, Ext) == q /\
  leq (gl s1 (fSP, n1, Ext)) (add_at (0 + L) q (gl st0 (fSP, n1, Ext))).
Proof. intros HJ Hd Hb. cbv zeta. unfold orders_action, place_order. rewrite ss_no_disruption.
  unfold recv_orders, gen_demand. cbn [cfg NWS cSS has_dem customers succs map app fold_left suppliers preds ext_sup].
  set (s2 := recv_order_one n1 (sl st0 (fOP, n1, Ext) [dem n1]) Ext).
  assert (F2 : forall f, f <> fIO -> f <> fDC -> f <> fPIO -> f <> fPEND -> f <> fcIO -> gq s2 (f, n1, Ext) = gq st0 (f, n1, Ext)).
  { intros f F1 F2 F3 F4 F5. unfold s2, recv_order_one. rewrite !gq_addq_other by (intro E; inversion E; subst; contradiction).
    rewrite gq_sl, gq_sq_other by (intro E; inversion E; subst; contradiction). apply gq_sl. }
  assert (X : hd0 (gl (sl st0 (fOP, n1, Ext) [dem n1]) (fOP, n1, Ext)) = dem n1) by (rewrite gl_sl_same; reflexivity).
  assert (Fio : gq s2 (fIO, n1, Ext) = dem n1) by (unfold s2, recv_order_one; gs; reflexivity).
  assert (Fpio : gq s2 (fPIO, n1, Ext) = gq st0 (fPIO, n1, Ext) + dem n1) by (unfold s2, recv_order_one; gs; reflexivity).
  assert (Gsp : gl s2 (fSP, n1, Ext) = gl st0 (fSP, n1, Ext)) by (unfold s2, recv_order_one; gs; rewrite ?gl_sl_other by discriminate; gs; rewrite ?gl_sl_other by discriminate; reflexivity).
  set (oq := order_qty NW s2 n1).
  assert (Hoq : oq == ss_order s S (il + qsum w - dem n1)).
  { unfold oq, order_qty, obs_ip, local_ip. rewrite Qred_correct.
    cbn [cfg NWS cSS pol customers suppliers succs preds has_dem ext_sup map app qmin_list]. unfold qsumf. cbn [map qsum].
    rewrite !F2 by discriminate. rewrite Fio. unfold capped. cbn [cap cSS rule].
    destruct HJ as [_ _ Jil Jlo Joo _ Jrm Jidi _ _ _ _].
    assert (Eip : gq st0 (fIL, n1, Ext) + (gq st0 (fRM, n1, Ext) + gq st0 (fOO, n1, Ext) + gq st0 (fIDI, n1, Ext)) - (dem n1 + 0) == il + qsum w - dem n1)
      by (rewrite Jil, Jrm, Joo, Jidi; lra).
    change (qmin (ss_order s S (gq st0 (fIL, n1, Ext) + (gq st0 (fRM, n1, Ext) + gq st0 (fOO, n1, Ext) + gq st0 (fIDI, n1, Ext)) - (dem n1 + 0))) BIG
            == ss_order s S (il + qsum w - dem n1)).
    rewrite (ss_order_proper s S _ _ Eip). unfold ss_order.
    destruct (qleb_spec (il + qsum w - dem n1) s) as [[A E]|[A E]]; rewrite E; qcases; try lra;
    unfold BIG in *; assert (0 < inject_Z (10 ^ 100)) by (change 0 with (inject_Z 0); rewrite <- Zlt_Qlt; reflexivity); lra. }
  unfold place_one. cbn [cfg NWS cSS olt slt].
  assert (Joq : gq st0 (fOQ, n1, Ext) == 0) by (destruct HJ; assumption).
  repeat split; gs; rewrite ?F2 by discriminate; try reflexivity.
  - exact Fpio.
  - rewrite Hoq. reflexivity.
  - rewrite Hoq, Joq. lra.
  - rewrite Gsp. apply leq_add_at; [exact Hoq|apply leq_refl].
Qed.

Lemma ss_ships_eff s1 : 0 <= gq s1 (fBO, n1, Ext) -> 0 <= gq s1 (fPIO, n1, Ext) -> 0 <= gq s1 (fODI, n1, Ext) ->
  0 <= gq s1 (fRM, n1, Ext) -> 0 <= gq s1 (fIDI, n1, Ext) -> 0 <= hd0 (gl s1 (fSP, n1, Ext)) ->
  let e := ships_action NW dis s1 n1 in
  let rtr := hd0 (gl s1 (fSP, n1, Ext)) in
  let made := gq s1 (fRM, n1, Ext) + (rtr + gq s1 (fIDI, n1, Ext)) in
  gq e (fIL, n1, Ext) == gq s1 (fIL, n1, Ext) + made - gq s1 (fPIO, n1, Ext) /\
  gq e (fOO, n1, Ext) == gq s1 (fOO, n1, Ext) - rtr /\
  gl e (fSP, n1, Ext) = zero0 (gl s1 (fSP, n1, Ext)) /\
  gq e (fRM, n1, Ext) == 0 /\ gq e (fIDI, n1, Ext) = 0 /\ gq e (fPIO, n1, Ext) = 0 /\
  gq e (fOQ, n1, Ext) = gq s1 (fOQ, n1, Ext) /\
  (gq s1 (fODI, n1, Ext) == 0 -> gq e (fODI, n1, Ext) == 0) /\
  0 <= gq e (fBO, n1, Ext).
Proof. intros Hb Hi Hd Hr Hidi Hrtr. cbv zeta. unfold ships_action, recv_ship.
  cbn [cfg NWS cSS suppliers preds ext_sup map app fold_left].
  set (il0 := gq s1 (fIL, n1, Ext)).
  set (sa := recv_ship_one NW dis n1 s1 Ext).
  set (rtr := hd0 (gl s1 (fSP, n1, Ext))) in *.
  assert (A_rm : gq sa (fRM, n1, Ext) = gq s1 (fRM, n1, Ext) + (rtr + gq s1 (fIDI, n1, Ext))).
  { unfold sa, recv_ship_one. rewrite ss_no_disruption. gs. reflexivity. }
  assert (A_oo : gq sa (fOO, n1, Ext) = gq s1 (fOO, n1, Ext) + - rtr) by (unfold sa, recv_ship_one; rewrite ss_no_disruption; gs; reflexivity).
  assert (A_idi : gq sa (fIDI, n1, Ext) = 0) by (unfold sa, recv_ship_one; rewrite ss_no_disruption; gs; reflexivity).
  assert (A_sp : gl sa (fSP, n1, Ext) = zero0 (gl s1 (fSP, n1, Ext))) by (unfold sa, recv_ship_one; rewrite ss_no_disruption; gs; reflexivity).
  assert (A_fr : forall f, f <> fIS -> f <> fRM -> f <> fOO -> f <> fIDI -> f <> fcIS -> gq sa (f, n1, Ext) = gq s1 (f, n1, Ext)).
  { intros f F1 F2 F3 F4 F5. unfold sa, recv_ship_one. rewrite ss_no_disruption.
    rewrite gq_addq_other, gq_sq_other, !gq_addq_other by (intro E; inversion E; subst; contradiction). rewrite gq_sl. apply gq_sq_other. intro E; inversion E; subst; contradiction. }
  unfold produce. cbn [cfg NWS cSS suppliers preds ext_sup map app fold_left qmin_list].
  set (made := gq sa (fRM, n1, Ext)).
  set (sb := addq (addq (addq (addq sa (fRM, n1, Ext) (- made)) (fIL, n1, Ext) made) (fPFG, n1, Ext) (- made)) (fCP, n1, Ext) made).
  unfold serve. cbn [cfg NWS cSS customers succs has_dem map app fold_left].
  set (sc := sq sb (fDMFS, n1, Ext) 0).
  assert (C_il : gq sc (fIL, n1, Ext) = il0 + made) by (unfold sc, sb; gs; rewrite A_fr by discriminate; reflexivity).
  assert (C_rm : gq sc (fRM, n1, Ext) = made + - made) by (unfold sc, sb; gs; reflexivity).
  assert (C_fr : forall f, f <> fRM -> f <> fIL -> f <> fPFG -> f <> fCP -> f <> fDMFS -> gq sc (f, n1, Ext) = gq sa (f, n1, Ext)).
  { intros f F1 F2 F3 F4 F5. unfold sc, sb. rewrite gq_sq_other, !gq_addq_other by (intro E; inversion E; subst; contradiction). reflexivity. }
  assert (C_sp : gl sc (fSP, n1, Ext) = gl sa (fSP, n1, Ext)) by (unfold sc, sb; gs; reflexivity).
  unfold serve_one. set (o := serve_calc _ _ _ _ _). cbn [fst]. unfold fill_rate.
  assert (Pio : gq sc (fPIO, n1, Ext) = gq s1 (fPIO, n1, Ext)) by (rewrite C_fr, A_fr by discriminate; reflexivity).
  assert (Bo : gq sc (fBO, n1, Ext) = gq s1 (fBO, n1, Ext)) by (rewrite C_fr, A_fr by discriminate; reflexivity).
  assert (Odi : gq sc (fODI, n1, Ext) = gq s1 (fODI, n1, Ext)) by (rewrite C_fr, A_fr by discriminate; reflexivity).
  assert (Oq : gq sc (fOQ, n1, Ext) = gq s1 (fOQ, n1, Ext)) by (rewrite C_fr, A_fr by discriminate; reflexivity).
  assert (Hmade : made = gq s1 (fRM, n1, Ext) + (rtr + gq s1 (fIDI, n1, Ext))) by exact A_rm.
  assert (Hoh : 0 <= qmax 0 il0 + made) by (rewrite Hmade; qcases; lra).
  assert (Hb' : 0 <= gq sc (fBO, n1, Ext)) by (rewrite Bo; exact Hb).
  assert (Hi' : 0 <= gq sc (fPIO, n1, Ext)) by (rewrite Pio; exact Hi).
  assert (Hd' : 0 <= gq sc (fODI, n1, Ext)) by (rewrite Odi; exact Hd).
  pose proof (serve_calc_spec (qmax 0 il0 + made) (gq sc (fBO, n1, Ext)) (gq sc (fPIO, n1, Ext)) (gq sc (fODI, n1, Ext)) false Hoh Hb' Hi' Hd') as SP.
  cbv zeta in SP. fold o in SP.
  destruct SP as (_ & _ & _ & Sbo & _ & _ & _ & _ & _ & _ & _ & Snsp). destruct (Snsp eq_refl) as [Sos Sodi].
  split; [gs; rewrite C_il, Pio, Hmade; lra|].
  split; [gs; rewrite C_fr by discriminate; rewrite A_oo; lra|].
  split; [gs; rewrite C_sp; exact A_sp|].
  split; [gs; rewrite C_rm; lra|].
  split; [gs; rewrite C_fr by discriminate; exact A_idi|].
  split; [gs; reflexivity|].
  split; [gs; exact Oq|].
  split; [intros Z; gs; exact Sodi|].
  gs. exact Sbo.
Qed.

(* one period: the end-of-period record is the reference step, and the invariant is re-established *)
Lemma ss_period_step st0 il w : JS st0 il w -> 0 <= dem n1 -> dem n1 + (S - lo) <= BIG ->
  let e := run_actions NW dis dem st0 in
  let il' := fst (fst (ref_step s S il w (dem n1))) in
  let w' := snd (fst (ref_step s S il w (dem n1))) in
  let q := snd (ref_step s S il w (dem n1)) in
  gq e (fIL, n1, Ext) == il' /\ gq e (fOO, n1, Ext) == qsum w' /\ gq e (fOQ, n1, Ext) == q /\
  c_tc (node_costs NW e n1) == h * qmax 0 il' + p * qmax 0 (- il') /\
  JS (next_period NW dis e) il' w'.
Proof.
  intros HJ Hd Hb. cbv zeta. unfold ref_step. cbn [fst snd].
  set (q := ss_order s S (il + qsum w - dem n1)).
  assert (Hq : 0 <= q) by (apply ss_order_nonneg; lra).
  unfold run_actions. rewrite (proj1 ss_visits), (proj2 ss_visits). cbn [fold_left].
  pose proof (ss_orders_eff st0 il w HJ Hd Hb) as OE. cbv zeta in OE. fold q in OE. set (s1 := orders_action NW dis dem st0 n1) in *.
  destruct OE as (O_il & O_rm & O_idi & O_odi & O_bo & O_pio & O_oo & O_oq & O_sp).
  destruct HJ as [Jlen Jnn Jil Jlo Joo Jsp Jrm Jidi Jpio Jodi Joq Jbo].
  destruct (pipeline_step L w q (gl st0 (fSP, n1, Ext)) Jlen Jsp) as [P1 P2].
  assert (Hhd : hd0 (gl s1 (fSP, n1, Ext)) == hd0 (w ++ [q])) by (rewrite (leq_hd0 _ _ O_sp); exact P2).
  assert (Hhd0 : 0 <= hd0 (w ++ [q])).
  { apply hd0_nonneg. apply Forall_app. split; [exact Jnn|constructor; [exact Hq|constructor]]. }
  pose proof (ss_ships_eff s1) as SE. cbv zeta in SE.
  assert (B1 : 0 <= gq s1 (fBO, n1, Ext)) by (rewrite O_bo; exact Jbo).
  assert (B2 : 0 <= gq s1 (fPIO, n1, Ext)) by (rewrite O_pio, Jpio; lra).
  assert (B3 : 0 <= gq s1 (fODI, n1, Ext)) by (rewrite O_odi, Jodi; lra).
  assert (B4 : 0 <= gq s1 (fRM, n1, Ext)) by (rewrite O_rm, Jrm; lra).
  assert (B5 : 0 <= gq s1 (fIDI, n1, Ext)) by (rewrite O_idi, Jidi; lra).
  assert (B6 : 0 <= hd0 (gl s1 (fSP, n1, Ext))) by (rewrite Hhd; exact Hhd0).
  specialize (SE B1 B2 B3 B4 B5 B6). set (e := ships_action NW dis s1 n1) in *.
  destruct SE as (E_il & E_oo & E_sp & E_rm & E_idi & E_pio & E_oq & E_odi & E_bo).
  assert (Ew : qsum (tl (w ++ [q])) == qsum w + q - hd0 (w ++ [q])).
  { rewrite qsum_tl, qsum_app. cbn [qsum]. lra. }
  assert (Fil : gq e (fIL, n1, Ext) == il + hd0 (w ++ [q]) - dem n1).
  { rewrite E_il, O_il, O_rm, O_idi, O_pio, Hhd, Jrm, Jidi, Jpio, Jil. lra. }
  assert (Foo : gq e (fOO, n1, Ext) == qsum (tl (w ++ [q]))).
  { rewrite E_oo, Ew, O_oo, Hhd, Joo. lra. }
  assert (Fodi : gq e (fODI, n1, Ext) == 0) by (apply E_odi; rewrite O_odi; exact Jodi).
  split; [exact Fil|]. split; [exact Foo|]. split; [rewrite E_oq; exact O_oq|]. split.
  - unfold node_costs. cbn [c_tc cfg NWS cSS customers succs preds has_dem hc pc ith Model.rev map app]. unfold qsumf. cbn [map qsum].
    rewrite Fodi. rewrite Fil. qcases; lra.
  - (* next period *)
    unfold next_period. cbn [nodes NWS fold_left]. unfold next_node. cbn [cfg NWS cSS suppliers customers preds succs ext_sup has_dem map app fold_left].
    rewrite ss_no_disruption.
    assert (Len : length (tl (w ++ [q])) = L).
    { destruct w; cbn [app tl length] in *; [exact Jlen|]. rewrite app_length. cbn [length]. lia. }
    assert (Nn : Forall (fun x => 0 <= x) (tl (w ++ [q]))).
    { assert (F : Forall (fun x => 0 <= x) (w ++ [q])) by (apply Forall_app; split; [exact Jnn|constructor; [exact Hq|constructor]]).
      destruct (w ++ [q]); cbn [tl]; [constructor|inversion F; assumption]. }
    constructor.
    + exact Len.
    + exact Nn.
    + gs. exact Fil.
    + rewrite Ew. unfold q, ss_order. destruct (qleb_spec (il + qsum w - dem n1) s) as [[A E]|[A E]]; rewrite E; lra.
    + gs. exact Foo.
    + gs. rewrite E_sp. apply leq_shift_sp. apply (leq_trans _ (zero0 (add_at (0 + L) q (gl st0 (fSP, n1, Ext))))); [apply leq_zero0; exact O_sp|exact P1].
    + gs. exact E_rm.
    + gs. rewrite E_idi. reflexivity.
    + gs. rewrite E_pio. reflexivity.
    + gs. exact Fodi.
    + gs. reflexivity.
    + gs. exact E_bo.
Qed.
End SSStage.


Section SSRun.
Variables (s S h p : Q) (L : nat) (x0 lo : Q).
Hypothesis s_lt_S : s < S.
Hypothesis lo_s : lo <= s.
Hypothesis lo_x0 : lo <= x0.
Notation NW := (NWS s S h p L x0).
Notation n1 := 1%N.

Lemma JS_init : JS L lo (init_state NW) x0 (repeat 0 L).
Proof. unfold init_state. cbn [nodes NWS fold_left]. unfold init_node.
  cbn [cfg NWS cSS customers suppliers succs preds has_dem ext_sup map app fold_left init_il pol rule init_ships init_orders slt olt].
  constructor.
  - apply repeat_length.
  - clear. induction L; cbn [repeat]; constructor; [lra|assumption].
  - gs. reflexivity.
  - rewrite qsum_repeat. lra.
  - gs. rewrite qsum_repeat. unfold qnat. cbn [Z.of_nat inject_Z]. lra.
  - gs. cbn [repeat app]. destruct L as [|k]; cbn [repeat shift_sp app].
    + constructor; [reflexivity|constructor].
    + constructor; [lra|]. apply leq_refl.
  - gs. rewrite gq_empty. reflexivity.
  - gs. rewrite gq_empty. reflexivity.
  - gs. rewrite gq_empty. reflexivity.
  - gs. rewrite gq_empty. reflexivity.
  - gs. rewrite gq_empty. reflexivity.
  - gs. rewrite gq_empty. lra.
Qed.

(* the statement about one end-of-period record *)
Definition rec_ok (K : Q) (e : st) (r : Q * list Q * Q) : Prop :=
  let '(il, w, q) := r in
  gq e (fIL, n1, Ext) == il /\ gq e (fOO, n1, Ext) == qsum w /\ gq e (fOQ, n1, Ext) == q /\
  c_tc (node_costs NW e n1) == h * qmax 0 il + p * qmax 0 (- il) /\
  sim_cost_with_K NW K e == h * qmax 0 il + p * qmax 0 (- il) + (if qltb 0 q then K else 0).

Lemma qltb_proper a b : a == b -> qltb 0 a = qltb 0 b.
Proof. intro H. destruct (qltb_spec 0 a) as [[A E]|[A E]], (qltb_spec 0 b) as [[A' E']|[A' E']]; rewrite E, E'; try reflexivity; lra. Qed.

Theorem ss_stage_from K : forall dl st0 il w, JS L lo st0 il w ->
  Forall (fun x : (N -> bool) * Q => 0 <= snd x /\ snd x + (S - lo) <= BIG) dl ->
  Forall2 (rec_ok K) (run_from NW st0 (mk_inputs dl)) (ref_run s S il w (map snd dl)).
Proof. induction dl as [|[dis d] r IH]; intros st0 il w HJ Hd; cbn [mk_inputs map run_from ref_run fst snd]; [constructor|].
  inversion Hd as [|? ? [H0 H1] Hr]; subst. cbn [snd] in *.
  pose proof (ss_period_step s S h p L x0 lo s_lt_S lo_s dis (fun _ => d) st0 il w HJ H0 H1) as PS. cbv zeta in PS.
  destruct (ref_step s S il w d) as [[il' w'] q] eqn:ER. cbn [fst snd] in PS.
  destruct PS as (A & B & Cq & Cc & Jn).
  constructor.
  - unfold rec_ok. split; [exact A|]. split; [exact B|]. split; [exact Cq|]. split; [exact Cc|].
    unfold sim_cost_with_K, order_placed. rewrite Cc. rewrite (qltb_proper _ _ Cq). reflexivity.
  - apply IH; assumption. Qed.

Theorem ss_stage_pathwise K dl : Forall (fun x : (N -> bool) * Q => 0 <= snd x /\ snd x + (S - lo) <= BIG) dl ->
  Forall2 (rec_ok K) (run NW (mk_inputs dl)) (ref_run s S x0 (repeat 0 L) (map snd dl)).
Proof. intros H. unfold run. apply ss_stage_from; [apply JS_init|exact H]. Qed.
End SSRun.
