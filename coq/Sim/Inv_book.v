(* Simulator invariants, part 2: linear bookkeeping identities that every atomic action preserves
   (order conservation, inventory-level balance, demand accounting, on-order accounting). *)
From SV Require Import Sim.Model Sim.StateLemmas Sim.Inv_base.

Ltac gsplit :=
  repeat (gs; match goal with
    | |- context [gq (sq _ ?k' _) ?k] => kcase k k'
    | |- context [gq (addq _ ?k' _) ?k] => kcase k k'
    end); gs.

Section Book.
Variable (NW : net).
Notation C := (cfg NW).
Definition il0 (n : N) : Q := match init_il (C n) with Some x => x | None => rule (pol (C n)) 0 end.
Definition oo0 (n : N) : Q := init_ships (C n) * qnat (slt (C n)) + init_orders (C n) * qnat (olt (C n)).

Record BK (s : st) : Prop := {
  (* every unit ordered by customer c of node n is shipped, backordered, held for c, or still to be served *)
  bk_order : forall n c, gq s (fcIO, n, c) == gq s (fcOS, n, c) + gq s (fBO, n, c) + gq s (fODI, n, c) + gq s (fPIO, n, c);
  (* inventory level = initial level + produced - orders served *)
  bk_il : forall n, gq s (fIL, n, Ext) + gq s (fSRV, n, Ext) == il0 n + gq s (fCP, n, Ext);
  (* cumulative demand = orders served + orders received but not yet served *)
  bk_dc : forall n, gq s (fDC, n, Ext) == gq s (fSRV, n, Ext) + gq s (fPEND, n, Ext);
  (* on-order = initial on-order + ordered - (received + held at the door) *)
  bk_oo : forall n p, In p (suppliers (C n)) -> gq s (fOO, n, p) + gq s (fcIS, n, p) + gq s (fIDI, n, p) == oo0 n + gq s (fcOQ, n, p) }.

Variable (dis : N -> bool) (dem : N -> Q).

Lemma BK_gen_demand s n : BK s -> BK (gen_demand NW dem s n).
Proof. intros [H1 H2 H3 H4]. unfold gen_demand. destruct (has_dem (C n)); [|constructor; assumption].
  constructor; [intros n' c'; gs; apply H1 | intros n'; gs; apply H2 | intros n'; gs; apply H3 | intros n' p Hp; gs; apply H4; exact Hp]. Qed.

Lemma BK_recv_order_one n s c : BK s -> BK (recv_order_one n s c).
Proof. intros [H1 H2 H3 H4]. unfold recv_order_one. set (x := hd0 (gl s (fOP, n, c))). constructor.
  - intros n' c'. specialize (H1 n' c'). gsplit; lra.
  - intros n'. gs. apply H2.
  - intros n'. specialize (H3 n'). gsplit; lra.
  - intros n' p Hp. gs. apply H4. exact Hp. Qed.

Lemma BK_place_one n oq s p : BK s -> BK (place_one NW n oq s p).
Proof. intros [H1 H2 H3 H4]. unfold place_one. constructor.
  - intros n' c'. destruct p; gs; apply H1.
  - intros n'. destruct p; gs; apply H2.
  - intros n'. destruct p; gs; apply H3.
  - intros n' p' Hp. specialize (H4 n' p' Hp). destruct p; gsplit; lra. Qed.

Lemma BK_place_order s n : BK s -> BK (place_order NW dis s n).
Proof. intros H. unfold place_order. destruct (disk NW dis n dOP); [exact H|].
  apply fold_left_inv; [intros a x _ Ha; apply BK_place_one; exact Ha|].
  destruct H as [H1 H2 H3 H4]. constructor; [intros n' c'; gs; apply H1 | intros n'; gs; apply H2 | intros n'; gs; apply H3 | intros n' p Hp; gs; apply H4; exact Hp]. Qed.

Lemma BK_recv_ship_one n s p : BK s -> BK (recv_ship_one NW dis n s p).
Proof. intros [H1 H2 H3 H4]. unfold recv_ship_one. constructor.
  - intros n' c'. gs. apply H1.
  - intros n'. gs. apply H2.
  - intros n'. gs. apply H3.
  - intros n' p' Hp. specialize (H4 n' p' Hp). destruct (disk NW dis n dRP); gsplit; lra. Qed.

Lemma BK_produce s n : wf_net NW -> BK s -> BK (fst (produce NW s n)).
Proof. intros WF [H1 H2 H3 H4]. unfold produce. cbn [fst].
  set (made := qmin_list _).
  destruct (produce_fold n made (suppliers (C n)) s (wf_sup NW WF n)) as (F & U & L).
  set (s1 := fold_left _ _ s) in *.
  assert (FR : forall f n' x, f <> fRM -> gq s1 (f, n', x) = gq s (f, n', x)).
  { intros f n' x Hf. apply F. intros p _ E. inversion E. contradiction. }
  constructor.
  - intros n' c'. gs. rewrite !FR by discriminate. apply H1.
  - intros n'. specialize (H2 n'). gsplit; rewrite !FR by discriminate; lra.
  - intros n'. gs. rewrite !FR by discriminate. apply H3.
  - intros n' p Hp. gs. rewrite !FR by discriminate. apply H4. exact Hp. Qed.

Lemma BK_serve_one n acc c : NN (fst acc) -> 0 <= snd acc -> BK (fst acc) -> BK (fst (serve_one NW dis n acc c)).
Proof.
  destruct acc as [s oh]. cbn [fst snd]. intros HN Hoh [H1 H2 H3 H4]. unfold serve_one.
  set (sp := match c with Nd c' => disk NW dis c' dSP | Ext => false end).
  assert (Hb : 0 <= gq s (fBO, n, c)) by (apply NN_q; [exact HN|reflexivity]).
  assert (Hi : 0 <= gq s (fPIO, n, c)) by (apply NN_q; [exact HN|reflexivity]).
  assert (Hd : 0 <= gq s (fODI, n, c)) by (apply NN_q; [exact HN|reflexivity]).
  pose proof (serve_calc_spec oh _ _ _ sp Hoh Hb Hi Hd) as S. cbv zeta in S.
  set (o := serve_calc oh (gq s (fBO, n, c)) (gq s (fPIO, n, c)) (gq s (fODI, n, c)) sp) in *.
  destruct S as (_ & _ & _ & _ & _ & _ & Pc & _).
  assert (BK (addq (addq (addq (sq (sq (sq (addq (addq (addq (sq s (fOS, n, c) (o_os o)) (fDMFS, n, Ext) (o_dmfs o)) (fDMC, n, Ext) (o_dmfs o))
             (fIL, n, Ext) (- gq s (fPIO, n, c))) (fBO, n, c) (o_bo o)) (fODI, n, c) (o_odi o)) (fPIO, n, c) 0)
             (fPEND, n, Ext) (- gq s (fPIO, n, c))) (fSRV, n, Ext) (gq s (fPIO, n, c))) (fcOS, n, c) (o_os o))) as HB.
  { constructor.
    - intros n' c'. kcase (fcIO, n', c') (fcIO, n, c).
      + gs. specialize (H1 n c). lra.
      + assert (HK : forall f : fld, (f, n', c') <> (f, n, c)) by (intros f E; inversion E; subst; apply KN; reflexivity).
        repeat first [gs1 | rewrite gq_sq_other by apply HK | rewrite gq_addq_other by apply HK]. apply H1.
    - intros n'. specialize (H2 n'). gsplit; lra.
    - intros n'. specialize (H3 n'). gsplit; lra.
    - intros n' p Hp. gs. apply H4. exact Hp. }
  destruct c as [|c']; cbn [fst]; [exact HB|].
  destruct HB as [B1 B2 B3 B4]. constructor; [intros n1 c1; rewrite !gq_sl; apply B1 | intros n1; rewrite !gq_sl; apply B2 | intros n1; rewrite !gq_sl; apply B3 | intros n1 p1 Hp; rewrite !gq_sl; apply B4; exact Hp].
Qed.

Lemma BK_serve_fold n : forall l acc, NN (fst acc) -> 0 <= snd acc -> BK (fst acc) ->
  BK (fst (fold_left (serve_one NW dis n) l acc)).
Proof. induction l as [|c r IH]; intros acc HN Hoh HB; cbn [fold_left]; [exact HB|].
  destruct (NN_serve_one NW dis n acc c HN Hoh) as [N1 N2]. apply IH; [exact N1|exact N2|]. apply BK_serve_one; assumption. Qed.

Lemma BK_sq_frame s f n x v : (f <> fBO /\ f <> fODI /\ f <> fPIO /\ f <> fcIO /\ f <> fcOS /\ f <> fIL /\ f <> fSRV /\ f <> fCP /\ f <> fDC /\ f <> fPEND
                               /\ f <> fOO /\ f <> fcIS /\ f <> fIDI /\ f <> fcOQ) -> BK s -> BK (sq s (f, n, x) v).
Proof. intros Hf [H1 H2 H3 H4]. constructor; intros; rewrite !gq_sq_other by (intro E; inversion E; subst; tauto); auto. Qed.

Lemma BK_ships_action s n : wf_net NW -> NN s -> BK s -> BK (ships_action NW dis s n).
Proof. intros WF HN HB. unfold ships_action.
  assert (B1 : BK (recv_ship NW dis s n)) by (unfold recv_ship; apply fold_left_inv; [intros a x _ Ha; apply BK_recv_ship_one; exact Ha|exact HB]).
  pose proof (NN_recv_ship NW dis s n HN) as N1.
  pose proof (BK_produce _ n WF B1) as B2. pose proof (NN_produce NW WF _ n N1) as [N2 Hm].
  destruct (produce NW (recv_ship NW dis s n) n) as [s2 made]. cbn [fst snd] in *.
  unfold fill_rate. apply BK_sq_frame; [repeat split; discriminate|].
  unfold serve. apply BK_serve_fold; cbn [fst snd].
  - apply NN_sq; [exact N2|intros _; lra].
  - qcases; lra.
  - apply BK_sq_frame; [repeat split; discriminate|exact B2]. Qed.

Lemma BK_orders_action s n : BK s -> BK (orders_action NW dis dem s n).
Proof. intros H. unfold orders_action. apply BK_place_order. unfold recv_orders.
  apply fold_left_inv; [intros a x _ Ha; apply BK_recv_order_one; exact Ha|]. apply BK_gen_demand. exact H. Qed.

Lemma BK_run_actions s : wf_net NW -> (forall n, 0 <= dem n) -> NN s -> BK s -> BK (run_actions NW dis dem s).
Proof. intros WF Hd HN HB. unfold run_actions.
  set (s1 := fold_left (orders_action NW dis dem) (order_visit NW) s).
  assert (H1 : NN s1 /\ BK s1).
  { unfold s1. apply (fold_left_inv (fun a => NN a /\ BK a)); [|split; assumption].
    intros a x _ [Na Ba]. split; [apply NN_orders_action; assumption|apply BK_orders_action; exact Ba]. }
  apply (fold_left_inv (fun a => NN a /\ BK a)); [|exact H1].
  intros a x _ [Na Ba]. split; [apply NN_ships_action; assumption|apply BK_ships_action; assumption]. Qed.

Lemma BK_next_node s n : BK s -> BK (next_node NW dis s n).
Proof. intros H. unfold next_node.
  apply BK_sq_frame; [repeat split; discriminate|]. apply BK_sq_frame; [repeat split; discriminate|]. apply BK_sq_frame; [repeat split; discriminate|].
  apply fold_left_inv.
  { intros a x _ Ha. apply BK_sq_frame; [repeat split; discriminate|]. apply BK_sq_frame; [repeat split; discriminate|].
    destruct Ha as [A1 A2 A3 A4]. constructor; [intros n' c'; gs; apply A1 | intros n'; gs; apply A2 | intros n'; gs; apply A3 | intros n' p Hp; gs; apply A4; exact Hp]. }
  apply fold_left_inv; [|exact H].
  intros a x _ Ha. apply BK_sq_frame; [repeat split; discriminate|]. apply BK_sq_frame; [repeat split; discriminate|].
  destruct (disk NW dis n dTP); [exact Ha|]. destruct Ha as [A1 A2 A3 A4]. constructor; [intros n' c'; gs; apply A1 | intros n'; gs; apply A2 | intros n'; gs; apply A3 | intros n' p Hp; gs; apply A4; exact Hp]. Qed.
Lemma BK_next_period s : BK s -> BK (next_period NW dis s).
Proof. intros H. unfold next_period. apply fold_left_inv; [|exact H]. intros a x _ Ha. apply BK_next_node. exact Ha. Qed.
End Book.
