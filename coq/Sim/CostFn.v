(* Cost FUNCTIONS of a node (sim._calculate_period_costs with local_holding_cost_function / stockout_cost_function set).
   Executable; no proofs here (see CostFn_proofs.v).

   sim.py: for each node
     holding  += local_holding_cost_function(items_held)          if the node has one (the linear rate is then IGNORED),
                 else local_holding_cost * items_held              items_held = IL^+ + items held for disrupted customers
     stockout += stockout_cost_function(inventory_level)           the SIGNED ending inventory level is the argument,
                 else stockout_cost * IL^-
   raw materials / items held at the door stay priced at the supplier's linear rate, in-transit and revenue are unchanged,
   total = holding + stockout + in-transit - revenue. Costs do not feed back into the dynamics, so the run is [run] of
   Sim/Model.v; only the cost read-out changes. [hf n] / [sf n] = the node's functions (None = not set). *)
From SV Require Import Sim.Model Sim.Obs.

Section CostFn.
Variable NW : net.
Variables (hf sf : N -> option (Q -> Q)).

Definition node_costs_fn (s : st) (n : N) : costs :=
  let c := cfg NW n in
  let il := gq s (fIL, n, Ext) in
  let held := qmax 0 il + qsumf (fun x => gq s (fODI, n, x)) (customers c) in
  let own := match hf n with Some f => f held | None => hc c * held end in
  let hcv := own + qsumf (fun p => hc (cfg NW p) * (gq s (fRM, n, Nd p) + gq s (fIDI, n, Nd p))) (preds c) in
  let scv := match sf n with Some f => f il | None => pc c * qmax 0 (- il) end in
  let hh := match ith c with Some x => x | None => hc c end in
  let itv := hh * qsumf (fun x => qsum (gl s (fSP, x, Nd n))) (succs c) in
  let rvv := rev c * qsumf (fun x => gq s (fOS, n, x)) (customers c) in
  {| c_hc := hcv; c_sc := scv; c_ithc := itv; c_rev := rvv; c_tc := hcv + scv + itv - rvv |}.

Definition total_cost_fn (recs : list st) : Q :=
  qsum (map (fun e => qsumf (fun n => c_tc (node_costs_fn e n)) (nodes NW)) recs).

(* observable form, as Obs.obs_node / obs_run but with the cost read-out above *)
Definition obs_node_fn (e : st) (n : N) : list (list (Z * Z)) :=
  let c := cfg NW n in
  let k := node_costs_fn e n in
  map qobs [gq e (fIL, n, Ext); gq e (fOQFG, n, Ext); gq e (fPFG, n, Ext); gq e (fDMFS, n, Ext); gq e (fDC, n, Ext);
            gq e (fDMC, n, Ext); gq e (fFR, n, Ext); c_hc k; c_sc k; c_ithc k; c_rev k; c_tc k]
  :: map (fun x => map qobs ([gq e (fIO, n, x); gq e (fOS, n, x); gq e (fBO, n, x); gq e (fODI, n, x)] ++ gl e (fOP, n, x))) (customers c)
  ++ map (fun p => map qobs ([gq e (fIS, n, p); gq e (fIDI, n, p); gq e (fRM, n, p); gq e (fOO, n, p); gq e (fOQ, n, p)] ++ gl e (fSP, n, p))) (suppliers c).
End CostFn.

Definition obs_run_fn (NW : net) (hf sf : N -> option (Q -> Q)) (inputs : list ((N -> bool) * (N -> Q))) : list (list (list (list (Z * Z)))) * (Z * Z) :=
  let recs := run NW inputs in
  (map (fun e => map (obs_node_fn NW hf sf e) (nodes NW)) recs, qobs (total_cost_fn NW hf sf recs)).

(* the function families the harness generates (py/simlib.cost_fn): holding f(x) = a x + b x^2 of the items held (not clamped),
   stockout g(IL) = a (-IL)^+ + b ((-IL)^+)^2 of the signed inventory level *)
Definition quad_h (a b x : Q) : Q := a * x + b * x * x.
Definition quad_p (a b il : Q) : Q := let y := qmax 0 (- il) in a * y + b * y * y.
