(* C06, last clause: renumbering the nodes of a network only renames the trajectory of the simulator model.
   General form ([relabel_gen_*]): f : N -> N injective; NW1 ANY network whose node list is [map f (nodes NW)] and whose
   configuration at every id [f n] is that of NW at n with the predecessor / successor lists mapped by f (nothing is
   asked of NW1 outside the image of f); inputs1 ANY inputs that agree with inputs through f. Then the run of NW1 on
   inputs1 is, state by state, the key-renamed run of NW on inputs: equality of the association lists themselves
   (Leibniz), hence of every scalar / pipeline read, of the node costs, of the total cost and of the observable form
   [obs_run]. No well-formedness of NW is needed (ids mentioned in preds/succs but absent from [nodes] are renamed too).
   Explicit form ([relabel_*]): when f has a left inverse g (g (f x) = x; every finite renumbering extends to such an
   f), [ren_net f g NW] and [ren_inputs g inputs] are such a network and such inputs. *)
From SV Require Import Sim.Model Sim.StateLemmas Sim.Obs Sim.Example.

(* ---------- the renaming ---------- *)
Definition ren_nb (f : N -> N) (x : nb) : nb := match x with Ext => Ext | Nd i => Nd (f i) end.
Definition ren_key (f : N -> N) (k : key) : key := let '(fl, n, x) := k in (fl, f n, ren_nb f x).
Definition ren_cfg (f : N -> N) (c : ncfg) : ncfg :=
  {| preds := map f (preds c); succs := map f (succs c); ext_sup := ext_sup c; has_dem := has_dem c;
     slt := slt c; olt := olt c; pol := pol c; cap := cap c; init_il := init_il c;
     hc := hc c; pc := pc c; ith := ith c; rev := rev c; dtype := dtype c;
     init_orders := init_orders c; init_ships := init_ships c |}.
Definition ren_net (f g : N -> N) (NW : net) : net :=
  {| nodes := map f (nodes NW); cfg := fun m => ren_cfg f (cfg NW (g m)) |}.
Definition ren_inputs (g : N -> N) (inputs : list ((N -> bool) * (N -> Q))) : list ((N -> bool) * (N -> Q)) :=
  map (fun i => (fun m => fst i (g m), fun m => snd i (g m))) inputs.
(* NW1 is NW renumbered by f; inputs1 is inputs renumbered by f (only the image of f is constrained) *)
Definition renumbers (f : N -> N) (NW NW1 : net) : Prop :=
  nodes NW1 = map f (nodes NW) /\ forall n, cfg NW1 (f n) = ren_cfg f (cfg NW n).
Definition renumbers_inputs (f : N -> N) (inputs inputs1 : list ((N -> bool) * (N -> Q))) : Prop :=
  Forall2 (fun i i1 => forall n, fst i1 (f n) = fst i n /\ snd i1 (f n) = snd i n) inputs inputs1.
Definition ren_amap {V} (f : N -> N) (m : amap key V) : amap key V := map (fun kv => (ren_key f (fst kv), snd kv)) m.
Definition ren_st (f : N -> N) (s : st) : st := {| qm := ren_amap f (qm s); lm := ren_amap f (lm s) |}.

(* generic: a fold over a mapped list, started from a renamed accumulator *)
Lemma fold_ren {A A' B B'} (R : A -> A') (h : B -> B') (F' : A' -> B' -> A') (F : A -> B -> A) :
  (forall a x, F' (R a) (h x) = R (F a x)) -> forall l a, fold_left F' (map h l) (R a) = R (fold_left F l a).
Proof. intros HF. induction l as [|x r IH]; intros a; cbn [map fold_left]; [reflexivity|]. rewrite HF. apply IH. Qed.
Lemma map_ren {B B' X} (h : B -> B') (F' : B' -> X) (F : B -> X) :
  (forall x, F' (h x) = F x) -> forall l, map F' (map h l) = map F l.
Proof. intros HF l. rewrite map_map. apply map_ext. exact HF. Qed.

Section Ren.
Variable f : N -> N.
Hypothesis f_inj : forall a b, f a = f b -> a = b.

Lemma ren_nb_inj a b : ren_nb f a = ren_nb f b -> a = b.
Proof. destruct a, b; cbn [ren_nb]; intros E; try congruence; injection E as E1; apply f_inj in E1; congruence. Qed.
Lemma ren_key_inj a b : ren_key f a = ren_key f b -> a = b.
Proof. destruct a as [[fa na] xa], b as [[fb nb0] xb]. cbn [ren_key]. intros E. injection E as E1 E2 E3.
  apply f_inj in E2. apply ren_nb_inj in E3. congruence. Qed.

(* ---------- association maps ---------- *)
Lemma aget_ren {V} (d : V) (m : amap key V) k : aget key_eq_dec d (ren_amap f m) (ren_key f k) = aget key_eq_dec d m k.
Proof. induction m as [|[k0 v0] r IH]; cbn [ren_amap map aget fst snd]; [reflexivity|]. fold (ren_amap f r).
  destruct (key_eq_dec (ren_key f k) (ren_key f k0)) as [E|NE], (key_eq_dec k k0) as [E'|NE']; try reflexivity.
  - apply ren_key_inj in E. contradiction.
  - subst. contradiction.
  - exact IH. Qed.
Lemma arem_ren {V} (m : amap key V) k : arem _ _ key_eq_dec (ren_amap f m) (ren_key f k) = ren_amap f (arem _ _ key_eq_dec m k).
Proof. induction m as [|[k0 v0] r IH]; cbn [ren_amap map arem fst snd]; [reflexivity|]. fold (ren_amap f r).
  destruct (key_eq_dec (ren_key f k) (ren_key f k0)) as [E|NE], (key_eq_dec k k0) as [E'|NE'].
  - exact IH.
  - apply ren_key_inj in E. contradiction.
  - subst. contradiction.
  - cbn [ren_amap map fst snd]. fold (ren_amap f (arem _ _ key_eq_dec r k)). rewrite <- IH. reflexivity. Qed.
Lemma aset_ren {V} (m : amap key V) k v : aset key_eq_dec (ren_amap f m) (ren_key f k) v = ren_amap f (aset key_eq_dec m k v).
Proof. unfold aset. rewrite arem_ren. reflexivity. Qed.

(* ---------- state reads and writes ---------- *)
Notation R := (ren_st f).
Lemma gq_ren s k : gq (R s) (ren_key f k) = gq s k.
Proof. unfold gq. cbn [ren_st qm]. apply aget_ren. Qed.
Lemma gl_ren s k : gl (R s) (ren_key f k) = gl s k.
Proof. unfold gl. cbn [ren_st lm]. apply aget_ren. Qed.
Lemma sq_ren s k v : sq (R s) (ren_key f k) v = R (sq s k v).
Proof. unfold sq, ren_st. cbn [qm lm]. rewrite aset_ren. reflexivity. Qed.
Lemma sl_ren s k v : sl (R s) (ren_key f k) v = R (sl s k v).
Proof. unfold sl, ren_st. cbn [qm lm]. rewrite aset_ren. reflexivity. Qed.
Lemma addq_ren s k v : addq (R s) (ren_key f k) v = R (addq s k v).
Proof. unfold addq. rewrite gq_ren. apply sq_ren. Qed.
Lemma ren_empty : R empty_st = empty_st.
Proof. reflexivity. Qed.

(* the same, with the key written out in the three shapes that occur in the model *)
Lemma gq_x s fl n x : gq (R s) (fl, f n, ren_nb f x) = gq s (fl, n, x).  Proof. exact (gq_ren s (fl, n, x)). Qed.
Lemma gq_E s fl n : gq (R s) (fl, f n, Ext) = gq s (fl, n, Ext).  Proof. exact (gq_ren s (fl, n, Ext)). Qed.
Lemma gq_N s fl n i : gq (R s) (fl, f n, Nd (f i)) = gq s (fl, n, Nd i).  Proof. exact (gq_ren s (fl, n, Nd i)). Qed.
Lemma gl_x s fl n x : gl (R s) (fl, f n, ren_nb f x) = gl s (fl, n, x).  Proof. exact (gl_ren s (fl, n, x)). Qed.
Lemma gl_E s fl n : gl (R s) (fl, f n, Ext) = gl s (fl, n, Ext).  Proof. exact (gl_ren s (fl, n, Ext)). Qed.
Lemma gl_N s fl n i : gl (R s) (fl, f n, Nd (f i)) = gl s (fl, n, Nd i).  Proof. exact (gl_ren s (fl, n, Nd i)). Qed.
Lemma sq_x s fl n x v : sq (R s) (fl, f n, ren_nb f x) v = R (sq s (fl, n, x) v).  Proof. exact (sq_ren s (fl, n, x) v). Qed.
Lemma sq_E s fl n v : sq (R s) (fl, f n, Ext) v = R (sq s (fl, n, Ext) v).  Proof. exact (sq_ren s (fl, n, Ext) v). Qed.
Lemma sq_N s fl n i v : sq (R s) (fl, f n, Nd (f i)) v = R (sq s (fl, n, Nd i) v).  Proof. exact (sq_ren s (fl, n, Nd i) v). Qed.
Lemma sl_x s fl n x v : sl (R s) (fl, f n, ren_nb f x) v = R (sl s (fl, n, x) v).  Proof. exact (sl_ren s (fl, n, x) v). Qed.
Lemma sl_E s fl n v : sl (R s) (fl, f n, Ext) v = R (sl s (fl, n, Ext) v).  Proof. exact (sl_ren s (fl, n, Ext) v). Qed.
Lemma sl_N s fl n i v : sl (R s) (fl, f n, Nd (f i)) v = R (sl s (fl, n, Nd i) v).  Proof. exact (sl_ren s (fl, n, Nd i) v). Qed.
Lemma addq_x s fl n x v : addq (R s) (fl, f n, ren_nb f x) v = R (addq s (fl, n, x) v).  Proof. exact (addq_ren s (fl, n, x) v). Qed.
Lemma addq_E s fl n v : addq (R s) (fl, f n, Ext) v = R (addq s (fl, n, Ext) v).  Proof. exact (addq_ren s (fl, n, Ext) v). Qed.
Lemma addq_N s fl n i v : addq (R s) (fl, f n, Nd (f i)) v = R (addq s (fl, n, Nd i) v).  Proof. exact (addq_ren s (fl, n, Nd i) v). Qed.

Ltac rn1 := first
  [ rewrite gq_x | rewrite gq_E | rewrite gq_N | rewrite gl_x | rewrite gl_E | rewrite gl_N
  | rewrite sq_x | rewrite sq_E | rewrite sq_N | rewrite sl_x | rewrite sl_E | rewrite sl_N
  | rewrite addq_x | rewrite addq_E | rewrite addq_N ].
Ltac rn := repeat rn1.

(* ---------- node lists ---------- *)
Lemma Neqb_ren a b : N.eqb (f a) (f b) = N.eqb a b.
Proof. destruct (N.eqb_spec a b) as [E|NE]; [subst; apply N.eqb_refl|]. apply N.eqb_neq. intros E. apply NE, f_inj, E. Qed.
Lemma memN_ren x l : memN (f x) (map f l) = memN x l.
Proof. unfold memN. induction l as [|a r IH]; cbn [map existsb]; [reflexivity|]. rewrite Neqb_ren, IH. reflexivity. Qed.
Lemma dedupN_ren l : dedupN (map f l) = map f (dedupN l).
Proof. induction l as [|a r IH]; cbn [map dedupN]; [reflexivity|]. rewrite memN_ren, IH. destruct (memN a r); reflexivity. Qed.

(* ---------- the configuration seen at a renamed node ---------- *)
Variables NW NW1 : net.
Hypothesis HNW : renumbers f NW NW1.
Notation NW' := NW1.
Notation C := (cfg NW).
Notation C' := (cfg NW1).

Lemma cfg_ren n : C' (f n) = ren_cfg f (C n).
Proof. apply HNW. Qed.
Lemma c_preds n : preds (C' (f n)) = map f (preds (C n)).  Proof. rewrite cfg_ren. reflexivity. Qed.
Lemma c_succs n : succs (C' (f n)) = map f (succs (C n)).  Proof. rewrite cfg_ren. reflexivity. Qed.
Lemma c_ext_sup n : ext_sup (C' (f n)) = ext_sup (C n).  Proof. rewrite cfg_ren. reflexivity. Qed.
Lemma c_has_dem n : has_dem (C' (f n)) = has_dem (C n).  Proof. rewrite cfg_ren. reflexivity. Qed.
Lemma c_slt n : slt (C' (f n)) = slt (C n).  Proof. rewrite cfg_ren. reflexivity. Qed.
Lemma c_olt n : olt (C' (f n)) = olt (C n).  Proof. rewrite cfg_ren. reflexivity. Qed.
Lemma c_pol n : pol (C' (f n)) = pol (C n).  Proof. rewrite cfg_ren. reflexivity. Qed.
Lemma c_cap n : cap (C' (f n)) = cap (C n).  Proof. rewrite cfg_ren. reflexivity. Qed.
Lemma c_init_il n : init_il (C' (f n)) = init_il (C n).  Proof. rewrite cfg_ren. reflexivity. Qed.
Lemma c_hc n : hc (C' (f n)) = hc (C n).  Proof. rewrite cfg_ren. reflexivity. Qed.
Lemma c_pc n : pc (C' (f n)) = pc (C n).  Proof. rewrite cfg_ren. reflexivity. Qed.
Lemma c_ith n : ith (C' (f n)) = ith (C n).  Proof. rewrite cfg_ren. reflexivity. Qed.
Lemma c_rev n : rev (C' (f n)) = rev (C n).  Proof. rewrite cfg_ren. reflexivity. Qed.
Lemma c_dtype n : dtype (C' (f n)) = dtype (C n).  Proof. rewrite cfg_ren. reflexivity. Qed.
Lemma c_init_orders n : init_orders (C' (f n)) = init_orders (C n).  Proof. rewrite cfg_ren. reflexivity. Qed.
Lemma c_init_ships n : init_ships (C' (f n)) = init_ships (C n).  Proof. rewrite cfg_ren. reflexivity. Qed.
Lemma c_suppliers n : suppliers (C' (f n)) = map (ren_nb f) (suppliers (C n)).
Proof. unfold suppliers. rewrite c_preds, c_ext_sup, map_app, !map_map. destruct (ext_sup (C n)); reflexivity. Qed.
Lemma c_customers n : customers (C' (f n)) = map (ren_nb f) (customers (C n)).
Proof. unfold customers. rewrite c_succs, c_has_dem, map_app, !map_map. destruct (has_dem (C n)); reflexivity. Qed.
Lemma c_is_dk n k : is_dk (C' (f n)) k = is_dk (C n) k.
Proof. unfold is_dk. rewrite c_dtype. reflexivity. Qed.
Lemma c_capped n q : capped (C' (f n)) q = capped (C n) q.
Proof. unfold capped. rewrite c_cap. reflexivity. Qed.
Lemma c_nodes : nodes NW' = map f (nodes NW).  Proof. apply HNW. Qed.
Lemma c_nnodes : length (nodes NW') = length (nodes NW).  Proof. rewrite c_nodes. apply map_length. Qed.

Ltac rc1 := first
  [ rewrite c_suppliers | rewrite c_customers | rewrite c_is_dk | rewrite c_capped | rewrite c_nnodes
  | rewrite c_preds | rewrite c_succs | rewrite c_ext_sup | rewrite c_has_dem | rewrite c_slt | rewrite c_olt
  | rewrite c_pol | rewrite c_cap | rewrite c_init_il | rewrite c_hc | rewrite c_pc | rewrite c_ith | rewrite c_rev
  | rewrite c_dtype | rewrite c_init_orders | rewrite c_init_ships ].
Ltac rc := repeat rc1.

(* ---------- one period: disruption flags [dis] and demands [dem] ---------- *)
Section Period.
Variables (dis dis1 : N -> bool) (dem dem1 : N -> Q).
Hypothesis Hdis : forall n, dis1 (f n) = dis n.
Hypothesis Hdem : forall n, dem1 (f n) = dem n.
Notation dis' := dis1.
Notation dem' := dem1.

Lemma disk_ren n k : disk NW' dis' (f n) k = disk NW dis n k.
Proof. unfold disk. rewrite Hdis, c_is_dk. reflexivity. Qed.

Lemma desc_aux_ren fuel n : desc_aux NW' fuel (f n) = map f (desc_aux NW fuel n).
Proof. revert n. induction fuel as [|k IH]; intros n; cbn [desc_aux]; [reflexivity|]. rewrite c_succs.
  induction (succs (C n)) as [|a r IHr]; cbn [map flat_map]; [reflexivity|].
  rewrite map_app, IH, IHr. reflexivity. Qed.
Lemma descendants_ren n : descendants NW' (f n) = map f (descendants NW n).
Proof. unfold descendants. rewrite c_nnodes, desc_aux_ren, dedupN_ren. reflexivity. Qed.
Lemma on_hand_ren s n : on_hand (R s) (f n) = on_hand s n.
Proof. unfold on_hand. rn. reflexivity. Qed.
Lemma backord_ren s n : backord (R s) (f n) = backord s n.
Proof. unfold backord. rn. reflexivity. Qed.
Lemma in_transit_from_ren s d p : in_transit_from (R s) (f d) (f p) = in_transit_from s d p.
Proof. unfold in_transit_from. rn. reflexivity. Qed.

Lemma echelon_il_ren s n : echelon_il NW' (R s) (f n) = echelon_il NW s n.
Proof. unfold echelon_il. cbv zeta. rewrite descendants_ren, on_hand_ren. unfold qsumf.
  change [f n] with (map f [n]). rewrite <- map_app.
  f_equal; [f_equal|]; f_equal; apply map_ren; intros d; cbv beta.
  - rewrite on_hand_ren, c_preds. f_equal. f_equal. apply map_ren. intros p. cbv beta.
    rewrite Neqb_ren, memN_ren, in_transit_from_ren. reflexivity.
  - rewrite c_succs, backord_ren. destruct (succs (C d)); reflexivity. Qed.
Lemma avg_over_suppliers_ren s fl n : avg_over_suppliers NW' (R s) fl (f n) = avg_over_suppliers NW s fl n.
Proof. unfold avg_over_suppliers. cbv zeta. rewrite c_suppliers, map_length. unfold qsumf.
  rewrite (map_ren (ren_nb f) _ (fun p => gq s (fl, n, p))) by (intros x; rn; reflexivity). reflexivity. Qed.
Lemma echelon_ip_ren s n : echelon_ip NW' (R s) (f n) = echelon_ip NW s n.
Proof. unfold echelon_ip. rewrite echelon_il_ren, !avg_over_suppliers_ren. reflexivity. Qed.

(* ---------- orders phase ---------- *)
Lemma gen_demand_ren s n : gen_demand NW' dem' (R s) (f n) = R (gen_demand NW dem s n).
Proof. unfold gen_demand. rewrite c_has_dem, Hdem. destruct (has_dem (C n)); [rn|]; reflexivity. Qed.
Lemma recv_order_one_ren n s c : recv_order_one (f n) (R s) (ren_nb f c) = R (recv_order_one n s c).
Proof. unfold recv_order_one. cbv zeta. rn. reflexivity. Qed.
Lemma recv_orders_ren s n : recv_orders NW' (R s) (f n) = R (recv_orders NW s n).
Proof. unfold recv_orders. rewrite c_customers. apply fold_ren. intros a x. apply recv_order_one_ren. Qed.
Lemma io_sum_ren s n : qsumf (fun c => gq (R s) (fIO, f n, c)) (customers (C' (f n))) = qsumf (fun c => gq s (fIO, n, c)) (customers (C n)).
Proof. unfold qsumf. rewrite c_customers. f_equal. apply map_ren. intros x. rn. reflexivity. Qed.
Lemma local_ip_ren s n : local_ip NW' (R s) (f n) = local_ip NW s n.
Proof. unfold local_ip. rewrite io_sum_ren, c_suppliers. rn. f_equal. f_equal. f_equal. apply map_ren. intros x. rn. reflexivity. Qed.
Lemma obs_ip_ren s n : obs_ip NW' (R s) (f n) = obs_ip NW s n.
Proof. unfold obs_ip. rewrite c_pol, io_sum_ren, echelon_ip_ren, local_ip_ren. reflexivity. Qed.
Lemma order_qty_ren s n : order_qty NW' (R s) (f n) = order_qty NW s n.
Proof. unfold order_qty. rewrite c_capped, c_pol, obs_ip_ren. reflexivity. Qed.
Lemma place_one_ren n oq s p : place_one NW' (f n) oq (R s) (ren_nb f p) = R (place_one NW n oq s p).
Proof. unfold place_one. cbv zeta. destruct p as [|p']; cbn [ren_nb]; rewrite ?c_olt, ?c_slt; rn; reflexivity. Qed.
Lemma place_order_ren s n : place_order NW' dis' (R s) (f n) = R (place_order NW dis s n).
Proof. unfold place_order. rewrite disk_ren. destruct (disk NW dis n dOP); [reflexivity|]. cbv zeta.
  rewrite order_qty_ren, c_suppliers. rn. apply fold_ren. intros a x. apply place_one_ren. Qed.
Lemma orders_action_ren s n : orders_action NW' dis' dem' (R s) (f n) = R (orders_action NW dis dem s n).
Proof. unfold orders_action. rewrite gen_demand_ren, recv_orders_ren, place_order_ren. reflexivity. Qed.

(* ---------- shipments phase ---------- *)
Definition ren_acc (a : st * Q) : st * Q := (R (fst a), snd a).
Lemma recv_ship_one_ren n s p : recv_ship_one NW' dis' (f n) (R s) (ren_nb f p) = R (recv_ship_one NW dis n s p).
Proof. unfold recv_ship_one. cbv zeta. rewrite disk_ren. rn. reflexivity. Qed.
Lemma recv_ship_ren s n : recv_ship NW' dis' (R s) (f n) = R (recv_ship NW dis s n).
Proof. unfold recv_ship. rewrite c_suppliers. apply fold_ren. intros a x. apply recv_ship_one_ren. Qed.
Lemma produce_ren s n : produce NW' (R s) (f n) = ren_acc (produce NW s n).
Proof. unfold produce, ren_acc. cbv zeta. cbn [fst snd]. rewrite c_suppliers.
  rewrite (map_ren (ren_nb f) _ (fun p => gq s (fRM, n, p))) by (intros x; rn; reflexivity).
  set (made := qmin_list _).
  rewrite (fold_ren R (ren_nb f) _ (fun s p => addq s (fRM, n, p) (- made))) by (intros a x; rn; reflexivity).
  rn. reflexivity. Qed.
Lemma serve_one_ren n a c : serve_one NW' dis' (f n) (ren_acc a) (ren_nb f c) = ren_acc (serve_one NW dis n a c).
Proof. destruct a as [s oh]. unfold ren_acc. cbn [fst snd]. unfold serve_one. cbv zeta.
  destruct c as [|c']; cbn [ren_nb fst snd]; rewrite ?disk_ren, ?c_slt; rn; reflexivity. Qed.
Lemma serve_ren s n il0 made : serve NW' dis' (R s) (f n) il0 made = R (serve NW dis s n il0 made).
Proof. unfold serve. cbv zeta. rewrite c_customers. rn.
  change (R (sq s (fDMFS, n, Ext) 0), qmax 0 il0 + made) with (ren_acc (sq s (fDMFS, n, Ext) 0, qmax 0 il0 + made)).
  rewrite (fold_ren ren_acc (ren_nb f) _ (serve_one NW dis n)) by (intros a x; apply serve_one_ren). reflexivity. Qed.
Lemma fill_rate_ren s n : fill_rate (R s) (f n) = R (fill_rate s n).
Proof. unfold fill_rate. cbv zeta. rn. reflexivity. Qed.
Lemma ships_action_ren s n : ships_action NW' dis' (R s) (f n) = R (ships_action NW dis s n).
Proof. unfold ships_action. cbv zeta. rn. rewrite recv_ship_ren, produce_ren. destruct (produce NW (recv_ship NW dis s n) n) as [s1 made].
  unfold ren_acc. cbn [fst snd]. rewrite serve_ren, fill_rate_ren. reflexivity. Qed.

(* ---------- visit orders ---------- *)
Definition ren_vis (a : list N * list N) : list N * list N := (map f (fst a), map f (snd a)).
Lemma dfs_orders_ren fuel a n : dfs_orders NW' fuel (ren_vis a) (f n) = ren_vis (dfs_orders NW fuel a n).
Proof. revert a n. induction fuel as [|k IH]; intros [vis out] n; cbn [dfs_orders]; [reflexivity|].
  unfold ren_vis at 1. cbn [fst snd]. rewrite memN_ren. destruct (memN n vis); [reflexivity|]. rewrite c_succs.
  change (f n :: map f vis, map f out) with (ren_vis (n :: vis, out)).
  rewrite (fold_ren ren_vis f _ (dfs_orders NW k)) by (intros a x; apply IH).
  destruct (fold_left (dfs_orders NW k) (succs (C n)) (n :: vis, out)) as [vis' out'].
  unfold ren_vis. cbn [fst snd]. rewrite map_app. reflexivity. Qed.
Lemma forallb_ren (P' P : N -> bool) l : (forall x, P' (f x) = P x) -> forallb P' (map f l) = forallb P l.
Proof. intros HP. induction l as [|a r IH]; cbn [map forallb]; [reflexivity|]. rewrite HP, IH. reflexivity. Qed.
Lemma dfs_ships_ren fuel a n : dfs_ships NW' fuel (ren_vis a) (f n) = ren_vis (dfs_ships NW fuel a n).
Proof. revert a n. induction fuel as [|k IH]; intros [vis out] n; cbn [dfs_ships]; [reflexivity|].
  unfold ren_vis at 1. cbn [fst snd]. rewrite memN_ren. destruct (memN n vis); [reflexivity|]. rewrite c_succs.
  change (f n :: map f vis, map f out ++ [f n]) with (f n :: map f vis, map f out ++ map f [n]). rewrite <- map_app.
  change (f n :: map f vis, map f (out ++ [n])) with (ren_vis (n :: vis, out ++ [n])).
  apply fold_ren. intros a x. rewrite c_preds.
  rewrite (forallb_ren _ (fun p => memN p (fst a))) by (intros p; unfold ren_vis; cbn [fst]; apply memN_ren).
  destruct (forallb _ _); [apply IH|reflexivity]. Qed.
Lemma sources_ren : sources NW' = map f (sources NW).
Proof. unfold sources. rewrite c_nodes. induction (nodes NW) as [|a r IH]; cbn [map filter]; [reflexivity|].
  rewrite c_preds, IH. destruct (preds (C a)); reflexivity. Qed.
Lemma order_visit_ren : order_visit NW' = map f (order_visit NW).
Proof. unfold order_visit. rewrite sources_ren, c_nnodes. change ([], []) with (ren_vis ([], [])) at 1.
  rewrite (fold_ren ren_vis f _ (dfs_orders NW (S (length (nodes NW))))) by (intros a x; apply dfs_orders_ren). reflexivity. Qed.
Lemma ship_visit_ren : ship_visit NW' = map f (ship_visit NW).
Proof. unfold ship_visit. rewrite sources_ren, c_nnodes. change ([], []) with (ren_vis ([], [])) at 1.
  rewrite (fold_ren ren_vis f _ (dfs_ships NW (S (length (nodes NW))))) by (intros a x; apply dfs_ships_ren). reflexivity. Qed.
Lemma run_actions_ren s : run_actions NW' dis' dem' (R s) = R (run_actions NW dis dem s).
Proof. unfold run_actions. rewrite order_visit_ren, ship_visit_ren.
  rewrite (fold_ren R f _ (orders_action NW dis dem)) by (intros a x; apply orders_action_ren).
  apply fold_ren. intros a x. apply ships_action_ren. Qed.

(* ---------- end of period ---------- *)
Lemma next_node_ren s n : next_node NW' dis' (R s) (f n) = R (next_node NW dis s n).
Proof. unfold next_node. cbv zeta. rewrite c_suppliers, c_customers, disk_ren.
  rewrite (fold_ren R (ren_nb f) _ (fun s p => let s := if disk NW dis n dTP then s else sl s (fSP, n, p) (shift_sp (gl s (fSP, n, p))) in
                                 sq (sq s (fIS, n, p) 0) (fOQ, n, p) 0)) by (intros a x; cbv zeta; destruct (disk NW dis n dTP); rn; reflexivity).
  rewrite (fold_ren R (ren_nb f) _ (fun s x => let s := addq s (fLOST, n, x) (hd0 (gl s (fOP, n, x))) in
                                 let s := sl s (fOP, n, x) (shift_op (gl s (fOP, n, x))) in
                                 sq (sq s (fIO, n, x) 0) (fOS, n, x) 0)) by (intros a x; cbv zeta; rn; reflexivity).
  rn. reflexivity. Qed.
Lemma next_period_ren s : next_period NW' dis' (R s) = R (next_period NW dis s).
Proof. unfold next_period. rewrite c_nodes. apply fold_ren. intros a x. apply next_node_ren. Qed.

End Period.

(* ---------- costs ---------- *)
Lemma node_costs_ren s n : node_costs NW' (R s) (f n) = node_costs NW s n.
Proof. unfold node_costs. cbv zeta. rewrite c_customers, c_preds, c_succs, c_hc, c_pc, c_ith, c_rev. rn. unfold qsumf.
  rewrite (map_ren (ren_nb f) _ (fun x => gq s (fODI, n, x))) by (intros x; rn; reflexivity).
  rewrite (map_ren (ren_nb f) _ (fun x => gq s (fOS, n, x))) by (intros x; rn; reflexivity).
  rewrite (map_ren f _ (fun p => hc (C p) * (gq s (fRM, n, Nd p) + gq s (fIDI, n, Nd p)))) by (intros x; rewrite c_hc; rn; reflexivity).
  rewrite (map_ren f _ (fun x => qsum (gl s (fSP, x, Nd n)))) by (intros x; rn; reflexivity).
  reflexivity. Qed.
Lemma total_cost_ren recs : total_cost NW' (map R recs) = total_cost NW recs.
Proof. unfold total_cost. f_equal. apply map_ren. intros e. unfold qsumf. rewrite c_nodes. f_equal. apply map_ren. intros n.
  rewrite node_costs_ren. reflexivity. Qed.
Lemma obs_node_ren e n : obs_node NW' (R e) (f n) = obs_node NW e n.
Proof. unfold obs_node. cbv zeta. rewrite node_costs_ren, c_customers, c_suppliers. rn.
  rewrite (map_ren (ren_nb f) _ (fun x => map qobs ([gq e (fIO, n, x); gq e (fOS, n, x); gq e (fBO, n, x); gq e (fODI, n, x)] ++ gl e (fOP, n, x))))
    by (intros x; rn; reflexivity).
  rewrite (map_ren (ren_nb f) _ (fun p => map qobs ([gq e (fIS, n, p); gq e (fIDI, n, p); gq e (fRM, n, p); gq e (fOO, n, p); gq e (fOQ, n, p)] ++ gl e (fSP, n, p))))
    by (intros x; rn; reflexivity).
  reflexivity. Qed.

(* ---------- initial state and run ---------- *)
Lemma init_node_ren s n : init_node NW' (R s) (f n) = R (init_node NW s n).
Proof. unfold init_node. cbv zeta. rewrite c_init_il, c_pol, c_customers, c_suppliers, c_init_ships, c_init_orders, c_slt, c_olt. rn.
  rewrite (fold_ren R (ren_nb f) _ (fun s x => match x with
             | Nd x' => sl s (fOP, n, x) (repeat (init_orders (cfg NW x')) (olt (cfg NW x')) ++ [0])
             | Ext => sl s (fOP, n, x) [0] end))
    by (intros a [|x']; cbn [ren_nb]; rewrite ?c_init_orders, ?c_olt; rn; reflexivity).
  apply fold_ren. intros a [|p']; cbn [ren_nb]; rn; reflexivity. Qed.
Lemma init_state_ren : init_state NW' = R (init_state NW).
Proof. unfold init_state. rewrite c_nodes. rewrite <- ren_empty at 1. apply fold_ren. intros a x. apply init_node_ren. Qed.
Lemma run_from_ren inputs inputs1 : renumbers_inputs f inputs inputs1 ->
  forall s, run_from NW' (R s) inputs1 = map R (run_from NW s inputs).
Proof. intros HI. induction HI as [|[dis dem] [dis1 dem1] r r1 H1 Hr IH]; intros s; cbn [map run_from]; [reflexivity|].
  cbn [fst snd] in H1. assert (Hdis : forall n, dis1 (f n) = dis n) by (intros n; apply H1).
  assert (Hdem : forall n, dem1 (f n) = dem n) by (intros n; apply H1).
  rewrite (run_actions_ren dis dis1 dem dem1 Hdis Hdem), (next_period_ren dis dis1 Hdis), IH. reflexivity. Qed.
Lemma run_ren inputs inputs1 : renumbers_inputs f inputs inputs1 -> run NW' inputs1 = map R (run NW inputs).
Proof. intros HI. unfold run. rewrite init_state_ren. apply run_from_ren. exact HI. Qed.
Lemma obs_run_ren inputs inputs1 : renumbers_inputs f inputs inputs1 -> obs_run NW' inputs1 = obs_run NW inputs.
Proof. intros HI. unfold obs_run. cbv zeta. rewrite (run_ren _ _ HI), total_cost_ren. f_equal.
  apply map_ren. intros e. rewrite c_nodes. apply map_ren. intros n. apply obs_node_ren. Qed.

End Ren.

Lemma nth_ren f t l : nth t (map (ren_st f) l) empty_st = ren_st f (nth t l empty_st).
Proof. rewrite <- (ren_empty f) at 1. apply map_nth. Qed.

(* ---------- the theorems, general form: f injective, any network / inputs that agree through f ---------- *)
Theorem relabel_gen_run : forall (f : N -> N), (forall a b, f a = f b -> a = b) ->
  forall (NW NW1 : net) (inputs inputs1 : list ((N -> bool) * (N -> Q))), renumbers f NW NW1 -> renumbers_inputs f inputs inputs1 ->
  run NW1 inputs1 = map (ren_st f) (run NW inputs).
Proof. intros f Hf NW NW1 inputs inputs1 HNW HI. exact (run_ren f Hf NW NW1 HNW inputs inputs1 HI). Qed.
Theorem relabel_gen_read : forall (f : N -> N), (forall a b, f a = f b -> a = b) ->
  forall (NW NW1 : net) (inputs inputs1 : list ((N -> bool) * (N -> Q))), renumbers f NW NW1 -> renumbers_inputs f inputs inputs1 ->
  length (run NW1 inputs1) = length (run NW inputs) /\
  forall (t : nat),
    (forall k : key, gq (nth t (run NW1 inputs1) empty_st) (ren_key f k) = gq (nth t (run NW inputs) empty_st) k) /\
    (forall k : key, gl (nth t (run NW1 inputs1) empty_st) (ren_key f k) = gl (nth t (run NW inputs) empty_st) k) /\
    (forall n : N, node_costs NW1 (nth t (run NW1 inputs1) empty_st) (f n) = node_costs NW (nth t (run NW inputs) empty_st) n).
Proof. intros f Hf NW NW1 inputs inputs1 HNW HI. rewrite (run_ren f Hf NW NW1 HNW inputs inputs1 HI). split; [apply map_length|].
  intros t. rewrite nth_ren. split; [|split].
  - intros k. apply (gq_ren f Hf).
  - intros k. apply (gl_ren f Hf).
  - intros n. apply (node_costs_ren f Hf NW NW1 HNW). Qed.
Theorem relabel_gen_total_cost : forall (f : N -> N), (forall a b, f a = f b -> a = b) ->
  forall (NW NW1 : net) (inputs inputs1 : list ((N -> bool) * (N -> Q))), renumbers f NW NW1 -> renumbers_inputs f inputs inputs1 ->
  total_cost NW1 (run NW1 inputs1) = total_cost NW (run NW inputs).
Proof. intros f Hf NW NW1 inputs inputs1 HNW HI. rewrite (run_ren f Hf NW NW1 HNW inputs inputs1 HI). apply (total_cost_ren f Hf NW NW1 HNW). Qed.
(* the observable form compared with the implementation (all documented state variables of every node, every period,
   and the total cost) is literally the same value *)
Theorem relabel_gen_obs_run : forall (f : N -> N), (forall a b, f a = f b -> a = b) ->
  forall (NW NW1 : net) (inputs inputs1 : list ((N -> bool) * (N -> Q))), renumbers f NW NW1 -> renumbers_inputs f inputs inputs1 ->
  obs_run NW1 inputs1 = obs_run NW inputs.
Proof. intros f Hf NW NW1 inputs inputs1 HNW HI. exact (obs_run_ren f Hf NW NW1 HNW inputs inputs1 HI). Qed.

(* ---------- explicit form: f with a left inverse g; the renumbered network and inputs are computed ---------- *)
Lemma left_inv_inj (f g : N -> N) : (forall x, g (f x) = x) -> forall a b, f a = f b -> a = b.
Proof. intros Hgf a b E. rewrite <- (Hgf a), <- (Hgf b), E. reflexivity. Qed.
Lemma ren_net_renumbers (f g : N -> N) NW : (forall x, g (f x) = x) -> renumbers f NW (ren_net f g NW).
Proof. intros Hgf. split; [reflexivity|]. intros n. cbn [ren_net cfg]. rewrite Hgf. reflexivity. Qed.
Lemma ren_inputs_renumbers (f g : N -> N) inputs : (forall x, g (f x) = x) -> renumbers_inputs f inputs (ren_inputs g inputs).
Proof. intros Hgf. unfold renumbers_inputs, ren_inputs. induction inputs as [|i r IH]; cbn [map]; constructor; [|exact IH].
  intros n. cbn [fst snd]. rewrite Hgf. split; reflexivity. Qed.

Theorem relabel_run : forall (f g : N -> N), (forall x, g (f x) = x) -> forall (NW : net) (inputs : list ((N -> bool) * (N -> Q))),
  run (ren_net f g NW) (ren_inputs g inputs) = map (ren_st f) (run NW inputs).
Proof. intros f g Hgf NW inputs. apply relabel_gen_run; [apply (left_inv_inj f g Hgf)|apply ren_net_renumbers, Hgf|apply ren_inputs_renumbers, Hgf]. Qed.
Theorem relabel_length : forall (f g : N -> N), (forall x, g (f x) = x) -> forall (NW : net) (inputs : list ((N -> bool) * (N -> Q))),
  length (run (ren_net f g NW) (ren_inputs g inputs)) = length (run NW inputs).
Proof. intros f g Hgf NW inputs. apply (relabel_gen_read f (left_inv_inj f g Hgf) NW _ inputs _ (ren_net_renumbers f g NW Hgf) (ren_inputs_renumbers f g inputs Hgf)). Qed.
Theorem relabel_gq : forall (f g : N -> N), (forall x, g (f x) = x) -> forall (NW : net) (inputs : list ((N -> bool) * (N -> Q))) (t : nat) (k : key),
  gq (nth t (run (ren_net f g NW) (ren_inputs g inputs)) empty_st) (ren_key f k) = gq (nth t (run NW inputs) empty_st) k.
Proof. intros f g Hgf NW inputs t k. apply (relabel_gen_read f (left_inv_inj f g Hgf) NW _ inputs _ (ren_net_renumbers f g NW Hgf) (ren_inputs_renumbers f g inputs Hgf)). Qed.
Theorem relabel_gl : forall (f g : N -> N), (forall x, g (f x) = x) -> forall (NW : net) (inputs : list ((N -> bool) * (N -> Q))) (t : nat) (k : key),
  gl (nth t (run (ren_net f g NW) (ren_inputs g inputs)) empty_st) (ren_key f k) = gl (nth t (run NW inputs) empty_st) k.
Proof. intros f g Hgf NW inputs t k. apply (relabel_gen_read f (left_inv_inj f g Hgf) NW _ inputs _ (ren_net_renumbers f g NW Hgf) (ren_inputs_renumbers f g inputs Hgf)). Qed.
Theorem relabel_node_costs : forall (f g : N -> N), (forall x, g (f x) = x) -> forall (NW : net) (inputs : list ((N -> bool) * (N -> Q))) (t : nat) (n : N),
  node_costs (ren_net f g NW) (nth t (run (ren_net f g NW) (ren_inputs g inputs)) empty_st) (f n)
  = node_costs NW (nth t (run NW inputs) empty_st) n.
Proof. intros f g Hgf NW inputs t n. apply (relabel_gen_read f (left_inv_inj f g Hgf) NW _ inputs _ (ren_net_renumbers f g NW Hgf) (ren_inputs_renumbers f g inputs Hgf)). Qed.
Theorem relabel_total_cost : forall (f g : N -> N), (forall x, g (f x) = x) -> forall (NW : net) (inputs : list ((N -> bool) * (N -> Q))),
  total_cost (ren_net f g NW) (run (ren_net f g NW) (ren_inputs g inputs)) = total_cost NW (run NW inputs).
Proof. intros f g Hgf NW inputs. apply (relabel_gen_total_cost f (left_inv_inj f g Hgf)); [apply ren_net_renumbers, Hgf|apply ren_inputs_renumbers, Hgf]. Qed.
Theorem relabel_obs_run : forall (f g : N -> N), (forall x, g (f x) = x) -> forall (NW : net) (inputs : list ((N -> bool) * (N -> Q))),
  obs_run (ren_net f g NW) (ren_inputs g inputs) = obs_run NW inputs.
Proof. intros f g Hgf NW inputs. apply (relabel_gen_obs_run f (left_inv_inj f g Hgf)); [apply ren_net_renumbers, Hgf|apply ren_inputs_renumbers, Hgf]. Qed.

(* ---------- non-vacuity: two concrete renumberings of the example network ---------- *)
Definition ex_f (x : N) : N := (x + 100)%N.
Definition ex_g (x : N) : N := (x - 100)%N.
Lemma ex_gf : forall x, ex_g (ex_f x) = x.
Proof. intros x. unfold ex_f, ex_g. apply N.add_sub. Qed.
(* a renumbering that reverses the numeric order of the chain 1 -> 2 -> 3 (an involution: its own left inverse) *)
Definition ex_sw (x : N) : N := match x with 1%N => 3%N | 3%N => 1%N | _ => x end.
Lemma ex_sw_sw : forall x, ex_sw (ex_sw x) = x.
Proof. intros [|[[p|p|]|[p|p|]|]]; reflexivity. Qed.

Example relabel_nonvacuous :
  let r := run ex_net ex_inputs in
  let r1 := run (ren_net ex_f ex_g ex_net) (ren_inputs ex_g ex_inputs) in
  let r2 := run (ren_net ex_sw ex_sw ex_net) (ren_inputs ex_sw ex_inputs) in
  length r1 = 8%nat /\ length r2 = 8%nat
  /\ gq (nth 5 r1 empty_st) (fBO, 102%N, Nd 103%N) = gq (nth 5 r empty_st) (fBO, 2%N, Nd 3%N)
  /\ gq (nth 5 r2 empty_st) (fBO, 2%N, Nd 1%N) = gq (nth 5 r empty_st) (fBO, 2%N, Nd 3%N)
  /\ 0 < gq (nth 5 r empty_st) (fBO, 2%N, Nd 3%N)
  /\ gl (nth 5 r1 empty_st) (fSP, 103%N, Nd 102%N) = gl (nth 5 r empty_st) (fSP, 3%N, Nd 2%N)
  /\ gl (nth 5 r2 empty_st) (fSP, 1%N, Nd 2%N) = gl (nth 5 r empty_st) (fSP, 3%N, Nd 2%N)
  /\ 0 < qsum (gl (nth 5 r empty_st) (fSP, 3%N, Nd 2%N))
  /\ gq (nth 7 r1 empty_st) (fIL, 101%N, Ext) = gq (nth 7 r empty_st) (fIL, 1%N, Ext)
  /\ gq (nth 7 r2 empty_st) (fIL, 3%N, Ext) = gq (nth 7 r empty_st) (fIL, 1%N, Ext)
  /\ total_cost (ren_net ex_f ex_g ex_net) r1 = total_cost ex_net r
  /\ total_cost (ren_net ex_sw ex_sw ex_net) r2 = total_cost ex_net r
  /\ obs_run (ren_net ex_sw ex_sw ex_net) (ren_inputs ex_sw ex_inputs) = obs_run ex_net ex_inputs.
Proof. vm_compute. repeat split; reflexivity. Qed.
(* general form: a network written as a lookup table (the way the harness writes networks), renumbered entry by entry,
   is a renumbering in the sense of [renumbers] although it is not of the form [ren_net f g _] (outside the image of f
   its configuration is the default one); inputs written directly in the new numbering *)
Definition ren_tbl (f : N -> N) (l : list (N * ncfg)) : list (N * ncfg) := map (fun kc => (f (fst kc), ren_cfg f (snd kc))) l.
Lemma tbl_net_renumbers (f : N -> N) l : (forall a b, f a = f b -> a = b) ->
  renumbers f {| nodes := map fst l; cfg := tbl dflt_cfg l |} {| nodes := map fst (ren_tbl f l); cfg := tbl dflt_cfg (ren_tbl f l) |}.
Proof. intros Hf. split; cbn [nodes cfg].
  - unfold ren_tbl. rewrite !map_map. reflexivity.
  - intros n. induction l as [|[k c] r IH]; cbn [ren_tbl map tbl fst snd]; [reflexivity|]. fold (ren_tbl f r).
    rewrite (Neqb_ren f Hf). destruct (N.eqb n k); [reflexivity|exact IH]. Qed.
Definition ex_net_sw : net := {| nodes := map fst (ren_tbl ex_sw ex_tbl); cfg := tbl dflt_cfg (ren_tbl ex_sw ex_tbl) |}.
Definition ex_inputs_sw : list ((N -> bool) * (N -> Q)) :=
  map (fun t : nat => (fun n : N => match n with 1%N => Nat.eqb (t mod 3) 1 | 3%N => Nat.eqb (t mod 4) 2 | _ => false end,
                       fun n : N => match n with 2%N => qnat (t mod 3) | 1%N => qnat (3 + t mod 5) | _ => 0 end))
      (seq 0 8).
Lemma ex_sw_inj : forall a b, ex_sw a = ex_sw b -> a = b.
Proof. exact (left_inv_inj ex_sw ex_sw ex_sw_sw). Qed.
Lemma ex_net_sw_renumbers : renumbers ex_sw ex_net ex_net_sw.
Proof. exact (tbl_net_renumbers ex_sw ex_tbl ex_sw_inj). Qed.
Lemma ex_inputs_sw_renumbers : renumbers_inputs ex_sw ex_inputs ex_inputs_sw.
Proof. unfold renumbers_inputs, ex_inputs, ex_inputs_sw. induction (seq 0 8) as [|t r IH]; cbn [map]; constructor; [|exact IH].
  intros [|[[p|p|]|[p|p|]|]]; split; reflexivity. Qed.
Example relabel_gen_nonvacuous :
  nodes ex_net_sw = [3%N; 2%N; 1%N] /\ preds (cfg ex_net_sw 2%N) = [3%N] /\ succs (cfg ex_net_sw 2%N) = [1%N]
  /\ obs_run ex_net_sw ex_inputs_sw = obs_run ex_net ex_inputs
  /\ gq (nth 5 (run ex_net_sw ex_inputs_sw) empty_st) (fBO, 2%N, Nd 1%N) = gq (nth 5 (run ex_net ex_inputs) empty_st) (fBO, 2%N, Nd 3%N)
  /\ 0 < gq (nth 5 (run ex_net ex_inputs) empty_st) (fBO, 2%N, Nd 3%N).
Proof. split; [reflexivity|]. split; [reflexivity|]. split; [reflexivity|]. split; [|split].
  - exact (relabel_gen_obs_run ex_sw ex_sw_inj ex_net ex_net_sw ex_inputs ex_inputs_sw ex_net_sw_renumbers ex_inputs_sw_renumbers).
  - vm_compute. reflexivity.
  - vm_compute. reflexivity. Qed.
(* the same facts are instances of the theorems *)
Example relabel_instance : forall t k,
  gq (nth t (run (ren_net ex_sw ex_sw ex_net) (ren_inputs ex_sw ex_inputs)) empty_st) (ren_key ex_sw k) = gq (nth t (run ex_net ex_inputs) empty_st) k.
Proof. exact (relabel_gq ex_sw ex_sw ex_sw_sw ex_net ex_inputs). Qed.

Print Assumptions relabel_gen_run.
Print Assumptions relabel_gen_read.
Print Assumptions relabel_gen_total_cost.
Print Assumptions relabel_gen_obs_run.
Print Assumptions relabel_run.
Print Assumptions relabel_length.
Print Assumptions relabel_gq.
Print Assumptions relabel_gl.
Print Assumptions relabel_node_costs.
Print Assumptions relabel_total_cost.
Print Assumptions relabel_obs_run.
