(* C15 / C13 bridge, part 4: the two remaining starts / conventions.
   A. lead time 1, start at or below the reorder point (x0 <= s, not a state of the chain): period 0 costs
      h (x0 - d)^+ + p (d - x0)^+ + K (an order is certain), from period 1 on the chain runs from offset 0.
   B. lead time 0, s < x0 <= S: the simulated period cost is charged on the position after ordering; its expectation is the
      chain's cost in the order-placement accounting (ecost_ord) with the degenerate one-period cost G0(y) = h y^+ + p y^-. *)
From SV Require Import Alg.SS_proofs Alg.SSErgo_proofs Alg.Gen_proofs.
From SV Require Import Sim.SSim Sim.SSim_proofs Sim.SSimChain_proofs Sim.SSimExp_proofs.

(* ---------- linearity of the expectation operator ---------- *)
Lemma expect_list_add : forall n off pm (F G : list nat -> Q),
  expect_list n off pm (fun ds => F ds + G ds) == expect_list n off pm F + expect_list n off pm G.
Proof. induction n as [|n IH]; intros off pm F G; cbn [expect_list]; [reflexivity|].
  rewrite <- wsum_add. apply wsum_ext. intro i. apply IH. Qed.
Lemma expect_list_scale : forall n off pm c (F : list nat -> Q),
  expect_list n off pm (fun ds => c * F ds) == c * expect_list n off pm F.
Proof. induction n as [|n IH]; intros off pm c F; cbn [expect_list]; [reflexivity|].
  rewrite <- wsum_scale. apply wsum_ext. intro i. apply IH. Qed.
(* a function of the tail only: the first coordinate integrates out *)
Lemma expect_list_tail n off pm (F : list nat -> Q) : qsum pm == 1 ->
  expect_list (Datatypes.S n) off pm (fun ds => F (tl ds)) == expect_list n off pm F.
Proof. intro H1. cbn [expect_list]. rewrite (wsum_ext _ (fun _ => expect_list n off pm F)).
  - rewrite wsum_const, H1. ring.
  - intro i. apply expect_list_ext_in. intros ds _ _. reflexivity. Qed.
(* a function of the first coordinate only *)
Lemma expect_list_head n pm (c : nat -> Q) : qsum pm == 1 ->
  expect_list (Datatypes.S n) 0 pm (fun ds => c (nth 0 ds 0%nat)) == wsum c 0 pm.
Proof. intro H1. cbn [expect_list]. apply wsum_ext. intro i. cbn [Nat.add nth]. apply expect_list_const. exact H1. Qed.

Lemma Qabs_tri3 a b c A B C : Qabs a <= A -> Qabs b <= B -> Qabs c <= C -> Qabs (a + b + c) <= A + B + C.
Proof. intros Ha Hb Hc. apply Qabs_Qle_condition in Ha, Hb, Hc. apply Qabs_Qle_condition. lra. Qed.
Lemma Qabs_div_T x B T : (1 <= T)%nat -> Qabs x <= B -> Qabs (x / qnat T) <= B / qnat T.
Proof. intros HT H. pose proof (SSErgo_proofs.qnat_pos T HT) as Hp. apply Qabs_Qle_condition in H. destruct H as [H1 H2]. apply Qabs_Qle_condition.
  assert (E1 : (x / qnat T) * qnat T == x) by (field; lra).
  assert (E2 : (B / qnat T) * qnat T == B) by (field; lra).
  set (u := x / qnat T) in *. set (v := B / qnat T) in *. split; nra. Qed.

(* ================================================================================================= *)
Section Low.
Variable pmf : list Q.
Hypothesis p_nonneg : forall l, 0 <= pf pmf l.
Hypothesis p_sum1 : qsum pmf == 1.
Hypothesis p0_lt1 : pf pmf 0 < 1.
Variables (s S x0 : Z) (h p K : Q).
Hypothesis s_lt_S : (s < S)%Z.
Hypothesis x0_low : (x0 <= s)%Z.
Hypothesis support_small : (Z.of_nat (length pmf) + (S - x0) <= 10 ^ 100)%Z.
Let n := Z.to_nat (S - s).

Definition c_first (d : nat) : Q := h * qmax 0 (inject_Z x0 - qnat d) + p * qmax 0 (qnat d - inject_Z x0) + K.

Theorem ss_period_cost_L1_low dss t (ds : list nat) : length dss = length ds -> (t < length ds)%nat ->
  Forall (fun d => (Z.of_nat d + (S - x0) <= 10 ^ 100)%Z) ds ->
  ss_period_cost s S h p K 1 x0 dss t ds ==
  match t with
  | O => c_first (nth 0 ds 0%nat)
  | Datatypes.S t' => pcost h p K S n (off_path n 0 (firstn t' (tl ds))) (nth t' (tl ds) 0%nat)
  end.
Proof. intros Hlen Ht Hb. unfold ss_period_cost, sim_inputs.
  destruct (sim_dl_ok x0 S dss ds Hlen Hb) as [Hsnd Hdl]. cbv zeta in Hsnd, Hdl. set (dl := combine dss (map qnat ds)) in *.
  assert (A1 : inject_Z s < inject_Z S) by (rewrite <- Zlt_Qlt; exact s_lt_S).
  assert (A2 : inject_Z x0 <= inject_Z s) by (rewrite <- Zle_Qle; exact x0_low).
  pose proof (ss_stage_pathwise (inject_Z s) (inject_Z S) h p 1 (inject_Z x0) (inject_Z x0) A1 A2 ltac:(lra) K dl Hdl) as F1.
  rewrite Hsnd in F1. cbn [repeat] in F1.
  destruct ds as [|d0 r]; [cbn [length] in Ht; lia|]. cbn [map ref_run] in F1. unfold ref_step in F1. cbn [app hd0 tl qsum] in F1.
  set (q := ss_order (inject_Z s) (inject_Z S) (inject_Z x0 + (0 + 0) - qnat d0)) in *.
  set (il := inject_Z x0 + 0 - qnat d0) in *.
  pose proof (qnat_nonneg d0) as Hd0.
  assert (Hip : inject_Z x0 + (0 + 0) - qnat d0 <= inject_Z s) by lra.
  assert (Hq : q == inject_Z S - il).
  { unfold q, ss_order, il. destruct (qleb_spec (inject_Z x0 + (0 + 0) - qnat d0) (inject_Z s)) as [[A E]|[A E]]; rewrite E; lra. }
  assert (Hqpos : qltb 0 q = true).
  { unfold q. rewrite ss_order_pos by exact A1. destruct (qleb_spec (inject_Z x0 + (0 + 0) - qnat d0) (inject_Z s)) as [[A E]|[A E]]; [exact E | lra]. }
  inversion F1 as [|e0 r0 erest rrest R0 Frest Erun Eref]. subst r0 rrest.
  destruct t as [|t'].
  - cbn [nth]. unfold rec_ok in R0. destruct R0 as (_ & _ & _ & _ & Rc). rewrite Rc, Hqpos. unfold c_first, il.
    apply Qplus_comp; [|reflexivity]. apply Qplus_comp; apply Qmult_comp; try reflexivity; apply qmax_proper; try reflexivity; ring.
  - cbn [nth tl]. cbn [length] in Ht.
    assert (H0n : (0 < Z.to_nat (S - s))%nat) by lia.
    assert (Hy : il + q == inject_Z S - qnat 0) by (rewrite Hq; change (qnat 0) with 0; lra).
    pose proof (ref_run_L1 s S s_lt_S r il q 0%nat H0n Hy) as F2. fold n in F2.
    assert (Ht2 : (t' < length (off_pairs n 0 r))%nat) by (rewrite off_pairs_length; lia).
    pose proof (Forall2_nth2 _ _ _ (0, [], 0) (0%nat, 0%nat) F2 t' Ht2) as R2.
    assert (Ht1 : (t' < length (ref_run (inject_Z s) (inject_Z S) il [q] (map qnat r)))%nat) by (rewrite (Forall2_len _ _ _ F2); exact Ht2).
    pose proof (Forall2_nth2 _ _ _ empty_st (0, [], 0) Frest t' Ht1) as R1.
    rewrite off_pairs_nth in R2 by lia.
    destruct (nth t' (ref_run (inject_Z s) (inject_Z S) il [q] (map qnat r)) (0, [], 0)) as [[il2 w2] q2].
    unfold rec_ok in R1. destruct R1 as (_ & _ & _ & _ & Rc). destruct R2 as [Ril Rq]. cbn [fst snd] in Ril, Rq.
    rewrite Rc, Rq, Ril. unfold pcost, n.
    apply Qplus_comp; [apply Qplus_comp; [reflexivity | apply Qmult_comp; [reflexivity | apply qmax_proper; [reflexivity | ring]]] | ].
    match goal with |- context [Nat.ltb ?a ?b] => destruct (Nat.ltb a b) end; cbn [negb]; reflexivity. Qed.

Lemma c_first_expectation : wsum c_first 0 pmf == Gdisc h p pmf x0 + K.
Proof. unfold c_first. rewrite wsum_add, wsum_const, p_sum1. apply Qplus_comp; [|ring].
  rewrite Gdisc_def, wsum_as_range. cbn [Nat.add]. apply qsum_range_ext. intros d _. unfold pf, qpos, qnat.
  rewrite !inj_sub_q. lra. Qed.

Theorem expected_ss_period_cost_low dss T : length dss = T ->
  ((0 < T)%nat -> expect_list T 0 pmf (ss_period_cost s S h p K 1 x0 dss 0) == Gdisc h p pmf x0 + K) /\
  (forall t, (Datatypes.S t < T)%nat -> expect_list T 0 pmf (ss_period_cost s S h p K 1 x0 dss (Datatypes.S t))
                           == ecost pmf (Gdisc h p pmf) K n S (unitv n 0) t).
Proof. intro Hdss.
  assert (Hsupp : forall ds, Forall (in_supp 0 pmf) ds -> Forall (fun d => (Z.of_nat d + (S - x0) <= 10 ^ 100)%Z) ds).
  { intros ds Hs. eapply Forall_impl; [|exact Hs]. intros d Hd. unfold in_supp in Hd. lia. }
  split.
  - intro HT. destruct T as [|T']; [lia|]. rewrite <- c_first_expectation, <- (expect_list_head T' pmf c_first p_sum1).
    apply expect_list_ext_in. intros ds Hlen Hs. apply (ss_period_cost_L1_low dss 0 ds); [lia | lia | apply Hsupp; exact Hs].
  - intros t Ht. destruct T as [|T']; [lia|].
    assert (H0n : (0 < Z.to_nat (S - s))%nat) by lia.
    pose proof (expect_pcost pmf p_sum1 s S S h p K s_lt_S ltac:(lia) 0%nat t T' H0n ltac:(lia)) as EP. fold n in EP. rewrite <- EP.
    rewrite <- (expect_list_tail T' 0 pmf _ p_sum1).
    apply expect_list_ext_in. intros ds Hlen Hs. apply (ss_period_cost_L1_low dss (Datatypes.S t) ds); [lia | lia | apply Hsupp; exact Hs]. Qed.

Theorem sS_stage_long_run_low dss T : length dss = T -> (1 <= T)%nat ->
  Qabs (sim_avg_cost s S h p K 1 x0 dss pmf T - gcost pmf (Gdisc h p pmf) K s S)
  <= (ergB pmf (Gdisc h p pmf) K s S + Qabs (Gdisc h p pmf x0 + K - gcost pmf (Gdisc h p pmf) K s S)) / qnat T.
Proof. intros Hdss HT. destruct (expected_ss_period_cost_low dss T Hdss) as [E0 E1].
  destruct T as [|T']; [lia|]. pose proof (SSErgo_proofs.qnat_pos (Datatypes.S T') HT) as Hp.
  set (g := gcost pmf (Gdisc h p pmf) K s S). set (c0 := Gdisc h p pmf x0 + K).
  assert (Esum : qsum_range (fun t => expect_list (Datatypes.S T') 0 pmf (ss_period_cost s S h p K 1 x0 dss t)) 0 (Datatypes.S T')
                 == c0 + totcost pmf (Gdisc h p pmf) K n S (unitv n 0) T').
  { rewrite qsum_range_first, (E0 ltac:(lia)). apply Qplus_comp; [reflexivity|].
    rewrite <- SS_proofs.qsum_range_shift. unfold totcost. apply qsum_range_ext. intros t Ht. apply E1. lia. }
  unfold sim_avg_cost. rewrite Esum.
  assert (H0n : (0 < Z.to_nat (S - s))%nat) by lia.
  pose proof (ss_total_cost_bound pmf (Gdisc h p pmf) K p_nonneg p_sum1 p0_lt1 s S (unitv n 0) T' s_lt_S (unitv_is_dist n 0 H0n)) as B.
  fold n in B. fold g in B. set (tot := totcost pmf (Gdisc h p pmf) K n S (unitv n 0) T') in *.
  setoid_replace ((c0 + tot) / qnat (Datatypes.S T') - g) with (((tot - qnat T' * g) + (c0 - g)) / qnat (Datatypes.S T'))
    by (rewrite SSErgo_proofs.qnat_S; field; rewrite <- SSErgo_proofs.qnat_S; lra).
  apply Qabs_div_T; [exact HT|].
  apply Qabs_Qle_condition in B. apply Qabs_Qle_condition. pose proof (Qle_Qabs (c0 - g)) as Q1. pose proof (Qle_Qabs (- (c0 - g))) as Q2.
  rewrite Qabs_opp in Q2. lra. Qed.
End Low.

(* ================================================================================================= *)
Section LeadTime0.
Variable pmf : list Q.
Hypothesis p_nonneg : forall l, 0 <= pf pmf l.
Hypothesis p_sum1 : qsum pmf == 1.
Hypothesis p0_lt1 : pf pmf 0 < 1.
Variables (s S x0 : Z) (h p K : Q).
Hypothesis s_lt_S : (s < S)%Z.
Hypothesis x0_range : (s < x0 <= S)%Z.
Hypothesis support_small : (Z.of_nat (length pmf) + (S - s) <= 10 ^ 100)%Z.
Let n := Z.to_nat (S - s).
Let i0 := Z.to_nat (S - x0).
Let gfun : nat -> Q := fun i => G0 h p (S - Z.of_nat i).
Let tfun : nat -> Q := fun i => tailp pmf (n - i).

Lemma n_pos0 : (1 <= n)%nat.  Proof. unfold n; lia. Qed.
Lemma i0_lt : (i0 < n)%nat.  Proof. unfold i0, n; lia. Qed.

Lemma gpart_dotn mu t : gpart pmf (G0 h p) n S mu t == dotn n (distf n (trans pmf n) (vec mu) t) gfun.
Proof. unfold gpart, dotn. apply qsum_range_ext. intros i Hi. rewrite <- (dist_vec pmf n mu t i) by lia. unfold vec, gfun. reflexivity. Qed.
Lemma ordprob_dotn mu t : ordprob pmf n mu t == dotn n (distf n (trans pmf n) (vec mu) t) tfun.
Proof. unfold ordprob, dotn. apply qsum_range_ext. intros i Hi. rewrite <- (dist_vec pmf n mu t i) by lia. unfold vec, tfun. reflexivity. Qed.

Lemma pcost0_split i d : pcost0 h p K S n i d == gfun (off_step n i d) + (if Nat.ltb (i + d) n then 0 else K).
Proof. unfold pcost0, gfun, G0. apply Qplus_comp; [|reflexivity]. unfold qnat. rewrite inj_sub_q.
  apply Qplus_comp; apply Qmult_comp; try reflexivity; apply qmax_proper; try reflexivity; ring. Qed.

Lemma off_path_lt : forall x j, (j < n)%nat -> (off_path n j x < n)%nat.
Proof. unfold off_path. induction x as [|d r IH]; intros j Hj; cbn [fold_left]; [exact Hj|]. apply IH. apply off_lt'. exact n_pos0. Qed.

Theorem expected_ss_period_cost_L0 dss t T o0 : length dss = T -> (t < T)%nat ->
  expect_list T 0 pmf (ss_period_cost s S h p K 0 x0 dss t) == ecost_ord pmf (G0 h p) K n S o0 (unitv n i0) (Datatypes.S t).
Proof. intros Hdss Ht. pose proof n_pos0 as Hn. pose proof i0_lt as Hi0.
  rewrite (expect_list_ext_in T 0 pmf _ (fun ds => pcost0 h p K S n (off_path n i0 (firstn t ds)) (nth t ds 0%nat))).
  2:{ intros ds Hlen Hs. apply ss_period_cost_L0; try assumption; try lia.
      eapply Forall_impl; [|exact Hs]. intros d Hd. unfold in_supp in Hd. lia. }
  unfold ecost_ord. rewrite gpart_dotn, ordprob_dotn, !(dist_Piter pmf n Hn), !(dot_unit n Hn) by exact Hi0.
  cbn [Piter]. rewrite <- (Piter_comm pmf n Hn t gfun i0 Hi0).
  rewrite <- !(expect_off_path pmf n Hn) by exact Hi0.
  rewrite <- expect_list_scale, <- expect_list_add.
  replace T with (t + (1 + (T - Datatypes.S t)))%nat by lia. rewrite expect_list_app.
  apply expect_list_ext_in. intros x Hx Hsx. cbv beta.
  rewrite expect_list_app. cbn [expect_list]. cbn [Nat.add].
  pose proof (off_path_lt x i0 Hi0) as Hlt.
  rewrite <- (off_step_law pmf n gfun (off_path n i0 x) Hlt).
  pose proof (wsum_tail_indicator pmf s S s_lt_S K (off_path n i0 x) Hlt) as TI. fold n in TI. unfold tfun. rewrite <- TI.
  rewrite Qplus_comm, <- wsum_add. apply wsum_ext. intro d.
  rewrite (expect_list_ext_in _ 0 pmf _ (fun _ => pcost0 h p K S n (off_path n i0 x) d)).
  - rewrite expect_list_const by exact p_sum1. apply pcost0_split.
  - intros z _ _. rewrite firstn_app, Hx, Nat.sub_diag, firstn_all2 by lia. cbn [firstn]. rewrite app_nil_r.
    rewrite app_nth2 by lia. rewrite Hx, Nat.sub_diag. reflexivity. Qed.

Theorem sS_stage_long_run_L0 dss T : length dss = T -> (1 <= T)%nat ->
  Qabs (sim_avg_cost s S h p K 0 x0 dss pmf T - gcost pmf (G0 h p) K s S)
  <= (ergB pmf (G0 h p) K s S + Qabs K + Qabs (G0 h p x0 - gcost pmf (G0 h p) K s S)) / qnat T.
Proof. intros Hdss HT. pose proof n_pos0 as Hn. pose proof i0_lt as Hi0. pose proof (SSErgo_proofs.qnat_pos T HT) as Hp.
  set (g := gcost pmf (G0 h p) K s S). set (mu := unitv n i0).
  assert (Esum : qsum_range (fun t => expect_list T 0 pmf (ss_period_cost s S h p K 0 x0 dss t)) 0 T
                 == totcost_ord pmf (G0 h p) K n S 0 mu (Datatypes.S T) - G0 h p x0).
  { unfold totcost_ord. rewrite qsum_range_first, <- SS_proofs.qsum_range_shift.
    assert (E0 : ecost_ord pmf (G0 h p) K n S 0 mu 0 == G0 h p x0).
    { unfold ecost_ord. rewrite gpart_dotn. cbn [distf]. unfold mu. rewrite (dot_unit n Hn) by exact Hi0. unfold gfun, i0.
      rewrite Z2Nat.id by lia. replace (S - (S - x0))%Z with x0 by lia. ring. }
    rewrite E0. setoid_replace (G0 h p x0 + qsum_range (fun i => ecost_ord pmf (G0 h p) K n S 0 mu (Datatypes.S i)) 0 T - G0 h p x0)
      with (qsum_range (fun i => ecost_ord pmf (G0 h p) K n S 0 mu (Datatypes.S i)) 0 T) by ring.
    apply qsum_range_ext. intros t Ht. apply expected_ss_period_cost_L0; [exact Hdss | lia]. }
  unfold sim_avg_cost. rewrite Esum.
  pose proof (ss_ergodic_ord pmf (G0 h p) K p_nonneg p_sum1 p0_lt1 s S 0 mu (Datatypes.S T) s_lt_S (unitv_is_dist n i0 Hi0) ltac:(lra) ltac:(lia)) as B.
  fold n in B. fold g in B. unfold avgcost_ord in B. set (tot := totcost_ord pmf (G0 h p) K n S 0 mu (Datatypes.S T)) in *.
  pose proof (SSErgo_proofs.qnat_pos (Datatypes.S T) ltac:(lia)) as Hp1.
  assert (B' : Qabs (tot - qnat (Datatypes.S T) * g) <= ergB pmf (G0 h p) K s S + Qabs K).
  { apply Qabs_Qle_condition in B. destruct B as [B1 B2]. apply Qabs_Qle_condition.
    assert (E1 : (tot / qnat (Datatypes.S T)) * qnat (Datatypes.S T) == tot) by (field; lra).
    assert (E2 : ((ergB pmf (G0 h p) K s S + Qabs K) / qnat (Datatypes.S T)) * qnat (Datatypes.S T) == ergB pmf (G0 h p) K s S + Qabs K) by (field; lra).
    set (u := tot / qnat (Datatypes.S T)) in *. set (v := (ergB pmf (G0 h p) K s S + Qabs K) / qnat (Datatypes.S T)) in *. split; nra. }
  setoid_replace ((tot - G0 h p x0) / qnat T - g) with (((tot - qnat (Datatypes.S T) * g) + (g - G0 h p x0)) / qnat T)
    by (rewrite SSErgo_proofs.qnat_S; field; lra).
  apply Qabs_div_T; [exact HT|].
  apply Qabs_Qle_condition in B'. apply Qabs_Qle_condition. pose proof (Qle_Qabs (G0 h p x0 - g)) as Q1. pose proof (Qle_Qabs (- (G0 h p x0 - g))) as Q2.
  rewrite Qabs_opp in Q2. lra. Qed.
End LeadTime0.
