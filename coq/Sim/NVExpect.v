(* C15, the expectation step for i.i.d. discrete demand with finite support -- a theorem, not a simulation.

   The pathwise theorem (Sim/Single.v, Props/C15.v) reduces the period cost of a single base-stock stage to
   g(D) = h (S - D)^+ + p (D - S)^+ at the realised lead-time demand D = sum of the last L demands.  Here:
     A. the iterated expectation E[g(D_1 + ... + D_L)] over L independent demands with pmf [pm] (values off + i) is the
        weighted sum of g against the L-fold convolution conv_pow L pm (Alg/Gen.v) -- "convolution is the law of the sum";
     B. for the newsvendor g this is nvd_cost h p S (pmf dict of the lead-time demand) of Alg/NVDiscrete.v;
     C. the expectation, over the product distribution of the WHOLE demand sequence, of the simulator model's period-t
        cost (t+1 >= L: window full) is that nvd_cost.
   Everything is over exact rationals and finite lists. *)
From SV Require Import Base.Qx Alg.Gen Alg.Gen_proofs Alg.NVDiscrete Alg.NVDiscrete_proofs.
From SV Require Import Sim.Model Sim.Single.
From Coq Require Import Sorting.Sorted.
Open Scope Q_scope.

(* ============================================================================================ *)
(* Model-style definitions (no proofs)                                                            *)

(* A demand pmf is a list [pm] of rationals: P(demand = off + i) = nth i pm 0.
   [wsum f 0 pm] (Alg/Gen.v) is  sum_i f i * pm_i : the expectation of f(index) for one draw. *)

(* E[g(D_1 + ... + D_L)], D_i independent with pmf (off, pm): the iterated sum over the index of each coordinate,
   weights multiplied (NOT via conv). *)
Fixpoint expect_sum (L off : nat) (pm : list Q) (g : nat -> Q) : Q :=
  match L with
  | O => g 0%nat
  | S L' => wsum (fun i => expect_sum L' off pm (fun s => g ((off + i) + s)%nat)) 0 pm
  end.

(* E[G [D_1; ...; D_n]] for a function of the whole demand vector (product distribution, iterated sum) *)
Fixpoint expect_list (n off : nat) (pm : list Q) (G : list nat -> Q) : Q :=
  match n with
  | O => G []
  | S n' => wsum (fun i => expect_list n' off pm (fun r => G ((off + i)%nat :: r))) 0 pm
  end.

(* the pmf dict {off + i : l_i} handed to newsvendor_discrete, as the sorted item list of Alg/NVDiscrete.v *)
Definition pmf_of_list (off : nat) (l : list Q) : pmf := combine (map Z.of_nat (seq off (length l))) l.

(* the newsvendor cost function at a realised (integer) lead-time demand k *)
Definition nv_g (h p S : Q) (k : nat) : Q := h * qmax 0 (S - qnat k) + p * qmax 0 (qnat k - S).

(* the simulator model's cost of period t (0-based) as a function of the demand sequence (naturals injected into Q);
   dss = the per-period disruption flags (irrelevant for this network: no disruption process) *)
Definition sim_inputs (dss : list (N -> bool)) (ds : list nat) : list ((N -> bool) * (N -> Q)) :=
  mk_inputs (combine dss (map qnat ds)).
Definition period_cost (S h p : Q) (L : nat) (dss : list (N -> bool)) (t : nat) (ds : list nat) : Q :=
  c_tc (node_costs (NW1 S h p L) (nth t (run (NW1 S h p L) (sim_inputs dss ds)) empty_st) 1%N).

(* ============================================================================================ *)
(* Proofs                                                                                         *)

(* ---- wsum toolbox ---- *)
Lemma wsum_shift_k f k l : wsum f k l == wsum (fun j => f (k + j)%nat) 0 l.
Proof.
  revert f. induction k as [|k IH]; intro f.
  - apply wsum_ext. intro i. reflexivity.
  - rewrite wsum_shift, IH. apply wsum_ext. intro i. reflexivity.
Qed.

Lemma wsum_ext_in f g k l : (forall i, (k <= i < k + length l)%nat -> f i == g i) -> wsum f k l == wsum g k l.
Proof.
  revert k. induction l as [|x r IH]; intros k H; cbn [wsum]; [reflexivity|].
  cbn [length] in H. rewrite (H k) by lia. rewrite IH; [reflexivity|]. intros i Hi. apply H. lia.
Qed.

Lemma wsum_zero k l : wsum (fun _ => 0) k l == 0.
Proof. rewrite wsum_const. ring. Qed.

(* Fubini for finite weighted sums *)
Lemma wsum_swap (F : nat -> nat -> Q) k1 a k2 b :
  wsum (fun i => wsum (F i) k2 b) k1 a == wsum (fun j => wsum (fun i => F i j) k1 a) k2 b.
Proof.
  revert k1. induction a as [|x a IH]; intro k1; cbn [wsum].
  - rewrite wsum_zero. reflexivity.
  - rewrite wsum_add, IH.
    rewrite (wsum_ext (fun j => F k1 j * x) (fun j => x * F k1 j)) by (intro; ring).
    rewrite wsum_scale. ring.
Qed.

(* the weighted sum against a convolution is the double sum *)
Lemma wsum_conv f a b : forall k,
  wsum f k (conv a b) == wsum (fun i => wsum (fun j => f (i + j)%nat) 0 b) k a.
Proof.
  induction a as [|x a IH]; intro k; cbn [conv wsum]; [reflexivity|].
  rewrite wsum_padd, wsum_map_scale. cbn [wsum]. rewrite IH, (wsum_shift_k f k b). ring.
Qed.

(* ---- Theorem A: convolution is the law of the sum ---- *)
Theorem expect_sum_conv : forall L off pm g,
  expect_sum L off pm g == wsum (fun k => g (L * off + k)%nat) 0 (conv_pow L pm).
Proof.
  induction L as [|L IH]; intros off pm g.
  - cbn [expect_sum conv_pow wsum Nat.mul Nat.add]. ring.
  - cbn [expect_sum conv_pow].
    rewrite (wsum_ext _ (fun i => wsum (fun k => g ((off + i) + (L * off + k))%nat) 0 (conv_pow L pm)))
      by (intro i; apply IH).
    rewrite wsum_swap, wsum_conv.
    apply wsum_ext. intro k. apply wsum_ext. intro j.
    replace (S L * off + (k + j))%nat with (off + j + (L * off + k))%nat by lia. reflexivity.
Qed.

(* ---- Theorem B: the weighted sum of the newsvendor cost function against a pmf list is nvd_cost of the pmf dict ---- *)
Lemma phi_qmax h p x d :
  phi h p x d == h * qmax 0 (inject_Z x - inject_Z d) + p * qmax 0 (inject_Z d - inject_Z x).
Proof.
  unfold phi.
  destruct (Z.leb_spec d x) as [A|A], (Z.leb_spec x d) as [B|B]; rewrite ?inj_sub;
    repeat match goal with H : (_ <= _)%Z |- _ => rewrite Zle_Qle in H | H : (_ < _)%Z |- _ => rewrite Zlt_Qlt in H end;
    qcases; lra.
Qed.

Lemma qsum_pmf_of_list (F : Z -> Q) l : forall k,
  qsum (map (fun e => snd e * F (fst e)) (pmf_of_list k l)) == wsum (fun i => F (Z.of_nat i)) k l.
Proof.
  unfold pmf_of_list. induction l as [|x r IH]; intro k; cbn [length seq map combine qsum wsum fst snd]; [reflexivity|].
  rewrite IH. ring.
Qed.

Lemma nvd_cost_wsum h p S off l :
  nvd_cost h p S (pmf_of_list off l) == wsum (fun k => nv_g h p (inject_Z S) (off + k)) 0 l.
Proof.
  rewrite cost_as_phi, (qsum_pmf_of_list (phi h p S)), wsum_shift_k.
  apply wsum_ext. intro i. rewrite phi_qmax. reflexivity.
Qed.

Theorem expect_newsvendor L off pm h p (S : Z) :
  expect_sum L off pm (nv_g h p (inject_Z S)) == nvd_cost h p S (pmf_of_list (L * off) (conv_pow L pm)).
Proof. rewrite expect_sum_conv, nvd_cost_wsum. reflexivity. Qed.

(* sanity: the expectation operator has total mass 1 for a probability vector *)
Lemma expect_sum_one L off pm : qsum pm == 1 -> expect_sum L off pm (fun _ => 1) == 1.
Proof.
  intro H. rewrite expect_sum_conv, wsum_const. destruct (ltd_moments L 0 pm H) as [H0 _]. rewrite H0. ring.
Qed.

(* ============================================================================================ *)
(* Theorem C: tie to the simulator model                                                          *)

(* ---- expectation of a function of the demand vector ---- *)
Definition in_supp (off : nat) (pm : list Q) (d : nat) : Prop := (off <= d < off + length pm)%nat.

Lemma expect_list_ext_in : forall n off pm G G',
  (forall ds, length ds = n -> Forall (in_supp off pm) ds -> G ds == G' ds) ->
  expect_list n off pm G == expect_list n off pm G'.
Proof.
  induction n as [|n IH]; intros off pm G G' H; cbn [expect_list].
  - apply H; [reflexivity | constructor].
  - apply wsum_ext_in. intros i Hi. apply IH. intros ds Hlen Hs. apply H.
    + cbn [length]. rewrite Hlen. reflexivity.
    + constructor; [unfold in_supp; lia | exact Hs].
Qed.

Lemma expect_list_const n off pm c : qsum pm == 1 -> expect_list n off pm (fun _ => c) == c.
Proof.
  intro H. induction n as [|n IH]; cbn [expect_list]; [reflexivity|].
  rewrite (wsum_ext _ (fun _ => c)) by (intro; exact IH). rewrite wsum_const, H. ring.
Qed.

Lemma expect_list_app : forall a b off pm G,
  expect_list (a + b) off pm G == expect_list a off pm (fun x => expect_list b off pm (fun y => G (x ++ y))).
Proof.
  induction a as [|a IH]; intros b off pm G; cbn [Nat.add expect_list].
  - apply expect_list_ext_in. intros ds _ _. reflexivity.
  - apply wsum_ext. intro i. rewrite IH. apply expect_list_ext_in. intros x _ _. reflexivity.
Qed.

Lemma expect_list_sum : forall L off pm g,
  expect_list L off pm (fun ds => g (list_sum ds)) == expect_sum L off pm g.
Proof.
  induction L as [|L IH]; intros off pm g; cbn [expect_list expect_sum]; [reflexivity|].
  apply wsum_ext. intro i. rewrite <- IH. apply expect_list_ext_in. intros ds _ _. reflexivity.
Qed.

(* marginalisation: a function of the sum of L consecutive coordinates; the a coordinates before and the b after
   integrate out (total mass 1) *)
Lemma expect_list_window a L b off pm g : qsum pm == 1 ->
  expect_list (a + (L + b)) off pm (fun ds => g (list_sum (firstn L (skipn a ds)))) == expect_sum L off pm g.
Proof.
  intro H1. rewrite expect_list_app.
  rewrite (expect_list_ext_in a off pm _ (fun _ => expect_sum L off pm g)); [apply expect_list_const; exact H1|].
  intros x Hx _. cbv beta.
  rewrite (expect_list_ext_in (L + b) off pm _ (fun y => g (list_sum (firstn L y)))).
  2:{ intros y _ _. rewrite skipn_app, Hx, Nat.sub_diag, skipn_all2 by lia. reflexivity. }
  rewrite expect_list_app.
  rewrite <- expect_list_sum. apply expect_list_ext_in. intros y Hy _. cbv beta.
  rewrite (expect_list_ext_in b off pm _ (fun _ => g (list_sum y))); [apply expect_list_const; exact H1|].
  intros z _ _. rewrite firstn_app, Hy, Nat.sub_diag, firstn_all2 by lia. cbn [firstn]. rewrite app_nil_r. reflexivity.
Qed.

(* ---- the pathwise theorem, read at one period ---- *)
Lemma Forall2_nth_R {A B} (R : A -> B -> Prop) l1 l2 d1 d2 : Forall2 R l1 l2 ->
  forall t, (t < length l1)%nat -> R (nth t l1 d1) (nth t l2 d2).
Proof.
  induction 1 as [|x y r s Hxy Hrs IH]; intros t Ht; cbn [length] in Ht; [lia|].
  destruct t as [|t]; cbn [nth]; [exact Hxy | apply IH; lia].
Qed.

Lemma Forall2_len {A B} (R : A -> B -> Prop) l1 l2 : Forall2 R l1 l2 -> length l1 = length l2.
Proof. induction 1; cbn [length]; congruence. Qed.

Lemma windows_length : forall ds w, length (windows w ds) = length ds.
Proof. induction ds as [|d r IH]; intro w; cbn [windows length]; [reflexivity | rewrite IH; reflexivity]. Qed.

Lemma map_snd_combine {A B} : forall (l1 : list A) (l2 : list B), length l1 = length l2 -> map snd (combine l1 l2) = l2.
Proof.
  induction l1 as [|a r IH]; intros [|b s] H; cbn [length] in H; try discriminate; [reflexivity|].
  cbn [combine map snd]. f_equal. apply IH. lia.
Qed.

Lemma qsum_map_qnat l : qsum (map qnat l) == qnat (list_sum l).
Proof.
  induction l as [|x r IH]; [reflexivity|]. change (list_sum (x :: r)) with (x + list_sum r)%nat.
  cbn [map qsum]. rewrite IH, qnat_add. reflexivity.
Qed.

Lemma qnat_nonneg n : 0 <= qnat n.
Proof. unfold qnat. change 0 with (inject_Z 0). rewrite <- Zle_Qle. lia. Qed.

(* the window of period t, once full (L <= t+1), is the L demands ending at t *)
Lemma window_full (L t : nat) (ds : list nat) : (t < length ds)%nat -> (L <= S t)%nat ->
  nth t (windows (repeat 0 L) (map qnat ds)) [] = map qnat (firstn L (skipn (S t - L) ds)).
Proof.
  intros Ht HL. rewrite windows_nth by (rewrite map_length; exact Ht).
  rewrite skipn_app, repeat_length, (skipn_all2 (repeat 0 L)) by (rewrite repeat_length; exact HL).
  cbn [app]. rewrite firstn_map, skipn_map. f_equal.
  rewrite firstn_skipn_comm. f_equal. f_equal. lia.
Qed.

(* Corollary of single_stage_pathwise + windows_nth: the simulator model's cost of period t is the newsvendor cost
   function at the sum of the L demands ending at t -- for EVERY sequence of natural demands not above BIG = 10^100
   (the model's stand-in for "no order capacity") *)
Theorem period_cost_pathwise (lv h p : Q) (L : nat) dss t (ds : list nat) :
  0 <= lv -> length dss = length ds -> (t < length ds)%nat -> (L <= S t)%nat ->
  Forall (fun d => (Z.of_nat d <= 10 ^ 100)%Z) ds ->
  period_cost lv h p L dss t ds == nv_g h p lv (list_sum (firstn L (skipn (S t - L) ds))).
Proof.
  intros Hlv Hlen Ht HL Hb. unfold period_cost, sim_inputs.
  set (dl := combine dss (map qnat ds)).
  assert (Hsnd : map snd dl = map qnat ds) by (apply map_snd_combine; rewrite map_length; exact Hlen).
  assert (Hdl : Forall (fun x : (N -> bool) * Q => 0 <= snd x /\ snd x <= BIG) dl).
  { apply Forall_forall. intros [f q] Hin. cbn [snd]. apply in_combine_r in Hin. apply in_map_iff in Hin.
    destruct Hin as (d & <- & Hd). rewrite Forall_forall in Hb. specialize (Hb d Hd).
    split; [apply qnat_nonneg|]. unfold BIG, qnat. rewrite <- Zle_Qle. exact Hb. }
  pose proof (single_stage_pathwise lv h p L Hlv dl Hdl) as F2.
  assert (Hrun : length (run (NW1 lv h p L) (mk_inputs dl)) = length ds).
  { rewrite (Forall2_len _ _ _ F2), windows_length, Hsnd, map_length. reflexivity. }
  pose proof (Forall2_nth_R _ _ _ empty_st [] F2 t ltac:(rewrite Hrun; exact Ht)) as (_ & _ & Hc).
  rewrite Hc, Hsnd, window_full, qsum_map_qnat by assumption. reflexivity.
Qed.

(* Theorem C: the expectation of the simulator model's period-t cost over the product distribution of the whole
   demand sequence D_0 .. D_{T-1} (i.i.d., P(D = off + i) = pm_i), for any period t with a full window, is the analytical
   newsvendor cost of the lead-time-demand pmf.
   Bound chosen: every support point is below BIG, stated as  off + length pm <= 10^100. *)
Theorem expected_period_cost (lv : Z) (h p : Q) (L off : nat) (pm : list Q) dss (t T : nat) :
  (0 <= lv)%Z -> qsum pm == 1 -> (Z.of_nat (off + length pm) <= 10 ^ 100)%Z ->
  length dss = T -> (t < T)%nat -> (L <= S t)%nat ->
  expect_list T off pm (period_cost (inject_Z lv) h p L dss t)
  == nvd_cost h p lv (pmf_of_list (L * off) (conv_pow L pm)).
Proof.
  intros Hlv H1 Hbig Hdss Ht HL.
  rewrite (expect_list_ext_in T off pm _
             (fun ds => nv_g h p (inject_Z lv) (list_sum (firstn L (skipn (S t - L) ds))))).
  - replace T with ((S t - L) + (L + (T - S t)))%nat by lia.
    rewrite expect_list_window by exact H1. apply expect_newsvendor.
  - intros ds Hlen Hs. apply period_cost_pathwise; try lia.
    + change 0 with (inject_Z 0). rewrite <- Zle_Qle. exact Hlv.
    + eapply Forall_impl; [|exact Hs]. intros d Hd. unfold in_supp in Hd.
      apply Z.le_trans with (Z.of_nat (off + length pm)); [lia | exact Hbig].
Qed.

(* ============================================================================================ *)
(* The lead-time-demand pmf dict is a valid input of newsvendor_discrete (sorted keys, non-negative, mass 1), so the
   optimality theorem of Alg/NVDiscrete_proofs.v applies to the EXPECTED simulator cost                          *)
Definition nonneg_list (l : list Q) : Prop := Forall (fun x => 0 <= x) l.

Lemma padd_nonneg : forall a b, nonneg_list a -> nonneg_list b -> nonneg_list (padd a b).
Proof.
  unfold nonneg_list. induction a as [|x a IH]; intros b Ha Hb; [exact Hb|].
  destruct b as [|y b]; [exact Ha|]. cbn [padd]. inversion Ha; inversion Hb; subst.
  constructor; [rewrite Qred_correct; lra | apply IH; assumption].
Qed.
Lemma conv_nonneg : forall a b, nonneg_list a -> nonneg_list b -> nonneg_list (conv a b).
Proof.
  induction a as [|x a IH]; intros b Ha Hb; cbn [conv]; [constructor|].
  inversion Ha as [|? ? Hx Ha']; subst. apply padd_nonneg.
  - unfold nonneg_list in *. rewrite Forall_map. eapply Forall_impl; [|exact Hb]. intros y Hy. cbv beta in *. apply Qmult_le_0_compat; assumption.
  - constructor; [lra | apply IH; assumption].
Qed.
Lemma conv_pow_nonneg L p : nonneg_list p -> nonneg_list (conv_pow L p).
Proof.
  intro H. induction L as [|L IH]; cbn [conv_pow]; [constructor; [lra | constructor] | apply conv_nonneg; assumption].
Qed.
Lemma padd_cons_nonempty a x b : padd a (x :: b) <> [].
Proof. destruct a; cbn [padd]; discriminate. Qed.
Lemma conv_pow_nonempty L p : conv_pow L p <> [].
Proof.
  induction L as [|L IH]; cbn [conv_pow]; [discriminate|].
  destruct (conv_pow L p) as [|x a]; [congruence|]. cbn [conv]. apply padd_cons_nonempty.
Qed.

Lemma map_fst_combine {A B} : forall (l1 : list A) (l2 : list B), length l1 = length l2 -> map fst (combine l1 l2) = l1.
Proof.
  induction l1 as [|a r IH]; intros [|b s] H; cbn [length] in H; try discriminate; [reflexivity|].
  cbn [combine map fst]. f_equal. apply IH. lia.
Qed.
Lemma seq_keys_sorted : forall n o, StronglySorted Z.lt (map Z.of_nat (seq o n)).
Proof.
  induction n as [|n IH]; intro o; cbn [seq map]; constructor; [apply IH|].
  apply Forall_forall. intros z Hz. apply in_map_iff in Hz. destruct Hz as (i & <- & Hi). apply in_seq in Hi. lia.
Qed.

Lemma pmf_of_list_valid off l : l <> [] -> nonneg_list l -> qsum l == 1 ->
  pmf_of_list off l <> [] /\ keys_sorted (pmf_of_list off l) /\
  Forall (fun e => 0 <= snd e) (pmf_of_list off l) /\ mass (pmf_of_list off l) == 1.
Proof.
  intros Hne Hnn H1. unfold pmf_of_list, keys_sorted, mass.
  assert (Hlen : length (map Z.of_nat (seq off (length l))) = length l) by (rewrite map_length, seq_length; reflexivity).
  rewrite map_fst_combine, map_snd_combine by exact Hlen. repeat split.
  - destruct l as [|x r]; [congruence|]. cbn [length seq map combine]. discriminate.
  - apply seq_keys_sorted.
  - rewrite <- (map_snd_combine _ _ Hlen) in Hnn. unfold nonneg_list in Hnn. rewrite Forall_map in Hnn. exact Hnn.
  - exact H1.
Qed.

Lemma ltd_pmf_valid L off pm : nonneg_list pm -> qsum pm == 1 ->
  let ltd := pmf_of_list (L * off) (conv_pow L pm) in
  ltd <> [] /\ keys_sorted ltd /\ Forall (fun e => 0 <= snd e) ltd /\ mass ltd == 1.
Proof.
  intros Hnn H1. apply pmf_of_list_valid; [apply conv_pow_nonempty | apply conv_pow_nonneg; exact Hnn|].
  destruct (ltd_moments L 0 pm H1) as [H0 _]. exact H0.
Qed.

(* the level newsvendor_discrete computes from the lead-time pmf minimises the expected lead-time cost
   E[h (y - D_L)^+ + p (D_L - y)^+] over all integer levels y *)
Theorem expected_cost_minimised L off pm h p : 0 < h -> 0 <= p -> nonneg_list pm -> qsum pm == 1 ->
  forall y : Z,
  expect_sum L off pm (nv_g h p (inject_Z (nvd_level h p (pmf_of_list (L * off) (conv_pow L pm)))))
  <= expect_sum L off pm (nv_g h p (inject_Z y)).
Proof.
  intros Hh Hp Hnn H1 y. rewrite !expect_newsvendor.
  destruct (ltd_pmf_valid L off pm Hnn H1) as (Hne & Hs & Hn & Hm). apply nvd_level_optimal; assumption.
Qed.

(* ============================================================================================ *)
(* Examples (non-vacuity; both sides evaluate to the same rational)                               *)
Definition ex_pm : list Q := [1#4; 1#2; 1#4].

Example ex_hyps : nonneg_list ex_pm /\ qsum ex_pm == 1 /\ (Z.of_nat (0 + length ex_pm) <= 10 ^ 100)%Z.
Proof. split; [|split]; [repeat constructor; discriminate | reflexivity | vm_compute; discriminate]. Qed.

Example ex_conv : map qobs (conv_pow 2 ex_pm) = [(1, 16); (1, 4); (3, 8); (1, 4); (1, 16)]%Z.
Proof. vm_compute. reflexivity. Qed.

(* Theorem B, L = 2, S = 2, h = 1, p = 4, demand values 0,1,2:  E = (2*1 + 1*4 + 0*6 + 4*4 + 8*1)/16 = 15/8 *)
Example ex_B :
  qobs (expect_sum 2 0 ex_pm (nv_g 1 4 (inject_Z 2))) = (15, 8)%Z /\
  qobs (nvd_cost 1 4 2 (pmf_of_list (2 * 0) (conv_pow 2 ex_pm))) = (15, 8)%Z.
Proof. vm_compute. split; reflexivity. Qed.

(* with a value offset: demand values 3,4,5, lead-time demand 6..10, S = 8 *)
Example ex_B_off :
  qobs (expect_sum 2 3 ex_pm (nv_g 1 4 (inject_Z 8))) = (15, 8)%Z /\
  qobs (nvd_cost 1 4 8 (pmf_of_list (2 * 3) (conv_pow 2 ex_pm))) = (15, 8)%Z /\
  map fst (pmf_of_list (2 * 3) (conv_pow 2 ex_pm)) = [6; 7; 8; 9; 10]%Z.
Proof. vm_compute. repeat split; reflexivity. Qed.

(* Theorem C: 3 periods (27 demand sequences through the simulator model), period t = 2, L = 2 *)
Example ex_C :
  let dis := fun _ : N => false in
  qobs (expect_list 3 0 ex_pm (period_cost (inject_Z 2) 1 4 2 [dis; dis; dis] 2)) = (15, 8)%Z
  (* a period whose window is not yet full (t = 0 < L - 1) has a different expected cost: only one demand is outstanding *)
  /\ qobs (expect_list 3 0 ex_pm (period_cost (inject_Z 2) 1 4 2 [dis; dis; dis] 0)) = (1, 1)%Z.
Proof. vm_compute. split; reflexivity. Qed.

Print Assumptions expect_sum_conv.
Print Assumptions expect_newsvendor.
Print Assumptions period_cost_pathwise.
Print Assumptions expected_period_cost.
Print Assumptions expected_cost_minimised.
