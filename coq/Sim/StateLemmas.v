(* Read-after-write lemmas for the simulator state, pipeline lemmas, fold lemmas, and the [gs] tactic. *)
From SV Require Import Sim.Model.

Lemma gq_sq_same s k v : gq (sq s k v) k = v.
Proof. unfold gq, sq. cbn [qm]. apply aget_aset_same. Qed.
Lemma gq_sq_other s k k' v : k <> k' -> gq (sq s k' v) k = gq s k.
Proof. intros H. unfold gq, sq. cbn [qm]. apply aget_aset_other. exact H. Qed.
Lemma gq_sl s k k' v : gq (sl s k' v) k = gq s k.
Proof. reflexivity. Qed.
Lemma gl_sq s k k' v : gl (sq s k' v) k = gl s k.
Proof. reflexivity. Qed.
Lemma gl_sl_same s k v : gl (sl s k v) k = v.
Proof. unfold gl, sl. cbn [lm]. apply aget_aset_same. Qed.
Lemma gl_sl_other s k k' v : k <> k' -> gl (sl s k' v) k = gl s k.
Proof. intros H. unfold gl, sl. cbn [lm]. apply aget_aset_other. exact H. Qed.
Lemma gq_addq_same s k v : gq (addq s k v) k = gq s k + v.
Proof. unfold addq. apply gq_sq_same. Qed.
Lemma gq_addq_other s k k' v : k <> k' -> gq (addq s k' v) k = gq s k.
Proof. intros H. unfold addq. apply gq_sq_other. exact H. Qed.
Lemma gl_addq s k k' v : gl (addq s k' v) k = gl s k.
Proof. reflexivity. Qed.
Lemma gq_empty k : gq empty_st k = 0.  Proof. reflexivity. Qed.
Lemma gl_empty k : gl empty_st k = [].  Proof. reflexivity. Qed.

(* decide a key disequality that follows from distinct field constructors or from hypotheses *)
Ltac key_neq := let E := fresh "E" in intro E; inversion E; subst; try congruence; try contradiction; try tauto.
Ltac gs1 :=
  first [ rewrite gq_sq_same | rewrite gq_addq_same | rewrite gl_sl_same | rewrite gq_sl | rewrite gl_sq | rewrite gl_addq
        | rewrite gq_sq_other by key_neq | rewrite gq_addq_other by key_neq | rewrite gl_sl_other by key_neq ].
Ltac gs := repeat gs1.
Ltac gs_in H :=
  repeat first [ rewrite gq_sq_same in H | rewrite gq_addq_same in H | rewrite gl_sl_same in H | rewrite gq_sl in H
               | rewrite gl_sq in H | rewrite gl_addq in H
               | rewrite gq_sq_other in H by key_neq | rewrite gq_addq_other in H by key_neq | rewrite gl_sl_other in H by key_neq ].

(* case split on whether two keys coincide *)
Ltac kcase k k' := destruct (key_eq_dec k k') as [?KE|?KN]; [first [progress subst | inversion KE; subst | idtac]|].

(* ---- folds ---- *)
Lemma fold_left_inv {A B} (P : A -> Prop) (f : A -> B -> A) l : (forall a x, In x l -> P a -> P (f a x)) -> forall a, P a -> P (fold_left f l a).
Proof. induction l as [|x r IH]; intros Hf a Ha; cbn [fold_left]; [exact Ha|].
  apply IH; [intros; apply Hf; [right|]; assumption|]. apply Hf; [left; reflexivity|exact Ha]. Qed.

(* ---- pipelines ---- *)
Lemma qsum_zero0 l : qsum (zero0 l) == qsum l - hd0 l.
Proof. destruct l; cbn [zero0 hd0 qsum]; lra. Qed.
Lemma length_zero0 l : length (zero0 l) = length l.
Proof. destruct l; reflexivity. Qed.
Lemma hd0_zero0 l : hd0 (zero0 l) = 0.
Proof. destruct l; reflexivity. Qed.
Lemma length_add_at i v l : length (add_at i v l) = length l.
Proof. revert i; induction l as [|a r IH]; intros [|i]; cbn [add_at length]; try reflexivity. rewrite IH. reflexivity. Qed.
Lemma qsum_add_at i v l : (i < length l)%nat -> qsum (add_at i v l) == qsum l + v.
Proof. revert i; induction l as [|a r IH]; intros [|i] H; cbn [add_at qsum length] in *; try lia; try lra.
  rewrite IH by lia. lra. Qed.
Lemma qsum_add_at_ge i v l : (length l <= i)%nat -> add_at i v l = l.
Proof. revert i; induction l as [|a r IH]; intros [|i] H; cbn [add_at length] in *; try reflexivity; try lia. rewrite IH by lia. reflexivity. Qed.
Lemma length_shift_sp l : length (shift_sp l) = length l.
Proof. destruct l as [|a [|b r]]; cbn [shift_sp length]; try reflexivity. rewrite app_length. cbn. lia. Qed.
Lemma qsum_shift_sp l : qsum (shift_sp l) == qsum l.
Proof. destruct l as [|a [|b r]]; cbn [shift_sp qsum]; try lra. rewrite qsum_app. cbn. lra. Qed.
Lemma length_shift_op l : length (shift_op l) = length l.
Proof. destruct l as [|a r]; cbn [shift_op length]; [reflexivity|]. rewrite app_length. cbn. lia. Qed.
Lemma qsum_shift_op l : qsum (shift_op l) == qsum l - hd0 l.
Proof. destruct l as [|a r]; cbn [shift_op qsum hd0]; [lra|]. rewrite qsum_app. cbn. lra. Qed.
Lemma Forall_nonneg_zero0 l : Forall (fun x => 0 <= x) l -> Forall (fun x => 0 <= x) (zero0 l).
Proof. destruct l; cbn; intros H; [exact H|]. inversion H; subst. constructor; [lra|assumption]. Qed.
Lemma Forall_nonneg_add_at i v l : 0 <= v -> Forall (fun x => 0 <= x) l -> Forall (fun x => 0 <= x) (add_at i v l).
Proof. intros Hv. revert i; induction l as [|a r IH]; intros [|i] H; cbn [add_at]; try exact H; inversion H; subst; constructor; try lra; auto. Qed.
Lemma Forall_nonneg_shift_sp l : Forall (fun x => 0 <= x) l -> Forall (fun x => 0 <= x) (shift_sp l).
Proof. destruct l as [|a [|b r]]; cbn [shift_sp]; intros H; try exact H. inversion H as [|? ? Ha H1]; subst. inversion H1 as [|? ? Hb Hr]; subst.
  constructor; [lra|]. apply Forall_app. split; [exact Hr|]. constructor; [lra|constructor]. Qed.
Lemma Forall_nonneg_shift_op l : Forall (fun x => 0 <= x) l -> Forall (fun x => 0 <= x) (shift_op l).
Proof. destruct l as [|a r]; cbn [shift_op]; intros H; [exact H|]. inversion H; subst. apply Forall_app. split; [assumption|]. constructor; [lra|constructor]. Qed.
Lemma hd0_nonneg l : Forall (fun x => 0 <= x) l -> 0 <= hd0 l.
Proof. destruct l; cbn; intros H; [lra|]. inversion H; assumption. Qed.

Lemma qmin_list_le l x : In x l -> qmin_list l <= x.
Proof. induction l as [|a r IH]; [intros []|]. intros [E|H].
  - subst. destruct r; cbn [qmin_list]; [lra|]. qcases; lra.
  - destruct r as [|b r']; [destruct H|]. specialize (IH H). cbn [qmin_list] in *. qcases; lra. Qed.
Lemma qmin_list_nonneg l : Forall (fun x => 0 <= x) l -> 0 <= qmin_list l.
Proof. induction 1 as [|a r Ha Hr IH]; cbn [qmin_list]; [lra|]. destruct r; [exact Ha|]. qcases; lra. Qed.
