(* Executable model of stockpyl's discrete-period simulator (sim.py, node_state_vars.py, policy.py),
   Stage 1: one product per node (the dummy-product case, network BOM numbers all 1), arbitrary DAG,
   external supplier / external customer at any node, order and shipment lead times, BS / (s,S) / (r,Q) / FQ /
   echelon-base-stock policies, order capacity, initial inventory / orders / shipments, the four disruption types.
   No proofs in this file.

   The period step is a sequence of ATOMIC NODE ACTIONS, in the order of sim.step:
     orders phase   : for n in (post-order DFS from the source nodes): gen_demand n; recv_orders n; place_order n
     shipments phase: for n in (DFS, a node once all its predecessors are done): recv_ship n; produce n; serve n;
                      fill_rate n   (serve also puts each shipment into the successor's pipeline)
     then costs are read off the end-of-period state and next_period shifts the pipelines.
   State = two association maps keyed by (field, node, neighbour): rationals and pipelines (lists).
   Ghost fields (not in the implementation, never compared with it; used only by the invariants):
     fPIO  inbound order received but not yet served (equals fIO between the two phases),
     fcIO fcOS fcIS fcOQ fCP  cumulative inbound orders / outbound shipments / inbound shipments / order quantities /
     units produced; fSRV cumulative orders served (taken out of the inventory level), fPEND node total of fPIO,
     fLOST what the end-of-period shift of an order pipeline dropped from slot 0 (provably 0 under the traversal order).
     The serve action consumes fPIO (so that running an action twice cannot double-serve).
   Two harmless re-orderings w.r.t. the Python text, both validated by the correspondence on every run: a shipment is put
   into the successor's pipeline inside serve_one (Python: _propagate_shipment_downstream, after all successors are
   served; nothing reads those pipelines in between), and the held-items entry of the external customer is written
   like the others (Python skips it; the value written is 0). State values are not normalised (no Qred): the
   correspondence feeds integer quantities, for which denominators stay 1. *)
From SV Require Export Base.Qx Base.Amap.
From Coq Require Export NArith.

Inductive nb := Ext | Nd (i : N).                       (* a neighbour: external supplier/customer, or a node *)
Inductive fld :=
  | fIL | fBO | fODI | fIDI | fRM | fOO | fDC | fDMC | fPFG          (* carried from period to period *)
  | fIO | fOS | fIS | fOQ | fOQFG | fDMFS | fFR                      (* per-period record fields *)
  | fSP | fOP                                                        (* pipelines (list-valued) *)
  | fPIO | fcIO | fcOS | fcIS | fcOQ | fCP | fSRV | fPEND | fLOST.    (* ghost *)
Definition key := (fld * N * nb)%type.

Definition nb_eq_dec : forall a b : nb, {a = b} + {a <> b}.
Proof. decide equality. apply N.eq_dec. Defined.
Definition fld_eq_dec : forall a b : fld, {a = b} + {a <> b}.
Proof. decide equality. Defined.
Definition key_eq_dec : forall a b : key, {a = b} + {a <> b}.
Proof. decide equality; [apply nb_eq_dec|]. decide equality; [apply N.eq_dec|apply fld_eq_dec]. Defined.

Record st := { qm : amap key Q; lm : amap key (list Q) }.
Definition gq (s : st) (k : key) : Q := aget key_eq_dec 0 (qm s) k.
Definition gl (s : st) (k : key) : list Q := aget key_eq_dec [] (lm s) k.
Definition sq (s : st) (k : key) (v : Q) : st := {| qm := aset key_eq_dec (qm s) k v; lm := lm s |}.
Definition sl (s : st) (k : key) (v : list Q) : st := {| qm := qm s; lm := aset key_eq_dec (lm s) k v |}.
Definition addq (s : st) (k : key) (v : Q) : st := sq s k (gq s k + v).
Definition empty_st : st := {| qm := []; lm := [] |}.

(* ---- pipelines ---- *)
Definition hd0 (l : list Q) : Q := match l with [] => 0 | a :: _ => a end.
Definition zero0 (l : list Q) : list Q := match l with [] => [] | _ :: r => 0 :: r end.
Fixpoint add_at (i : nat) (v : Q) (l : list Q) : list Q :=
  match l, i with
  | [], _ => []
  | a :: r, O => (a + v) :: r
  | a :: r, S i' => a :: add_at i' v r
  end.
(* sim._initialize_next_period_state_vars: new[0] = old[0] + old[1]; new[s] = old[s+1]; last = 0 *)
Definition shift_sp (l : list Q) : list Q :=
  match l with [] => [] | [a] => [a] | a :: b :: r => (a + b) :: r ++ [0] end.
Definition shift_op (l : list Q) : list Q := match l with [] => [] | _ :: r => r ++ [0] end.

(* ---- configuration ---- *)
Inductive policy := BS (lv : Q) | SS (rp lv : Q) | RQ (rp q : Q) | FQ (q : Q) | EBS (lv : Q).
Inductive dkind := dOP | dSP | dTP | dRP.
Record ncfg := {
  preds : list N; succs : list N; ext_sup : bool; has_dem : bool;
  slt : nat; olt : nat; pol : policy; cap : option Q; init_il : option Q;
  hc : Q; pc : Q; ith : option Q; rev : Q; dtype : option dkind;
  init_orders : Q; init_ships : Q }.
Record net := { nodes : list N; cfg : N -> ncfg }.

Definition suppliers (c : ncfg) : list nb := map Nd (preds c) ++ (if ext_sup c then [Ext] else []).
Definition customers (c : ncfg) : list nb := map Nd (succs c) ++ (if has_dem c then [Ext] else []).
Definition is_dk (c : ncfg) (k : dkind) : bool :=
  match dtype c, k with
  | Some dOP, dOP | Some dSP, dSP | Some dTP, dTP | Some dRP, dRP => true
  | _, _ => false end.

(* policy.py: the five rules and the capacity cap *)
Definition rule (p : policy) (ip : Q) : Q :=
  match p with
  | BS lv => qmax 0 (lv - ip)
  | SS rp lv => if qleb ip rp then lv - ip else 0
  | RQ rp q => if qleb ip rp then q else 0
  | FQ q => q
  | EBS lv => qmax 0 (lv - ip)
  end.
Definition BIG : Q := inject_Z (10 ^ 100).
Definition capped (c : ncfg) (oq : Q) : Q := qmin oq (match cap c with Some k => k | None => BIG end).

Fixpoint qmin_list (l : list Q) : Q :=
  match l with [] => 0 | [a] => a | a :: r => qmin a (qmin_list r) end.
Definition qsumf {A} (f : A -> Q) (l : list A) : Q := qsum (map f l).

Section Step.
Variable (NW : net).
Variable (dis : N -> bool).          (* disruption state of each node in this period (false if no process) *)
Variable (dem : N -> Q).             (* realised external demand of each node in this period *)
Notation C := (cfg NW).
Definition disk (n : N) (k : dkind) : bool := dis n && is_dk (C n) k.

(* ---------- descendants and echelon quantities (node_state_vars: echelon quantities) ---------- *)
Definition memN (x : N) (l : list N) : bool := existsb (N.eqb x) l.
Fixpoint desc_aux (fuel : nat) (n : N) : list N :=
  match fuel with O => [] | S f => flat_map (fun s => s :: desc_aux f s) (succs (C n)) end.
Fixpoint dedupN (l : list N) : list N :=
  match l with [] => [] | a :: r => if memN a r then dedupN r else a :: dedupN r end.
Definition descendants (n : N) : list N := dedupN (desc_aux (length (nodes NW)) n).
Definition on_hand (s : st) (n : N) : Q := qmax 0 (gq s (fIL, n, Ext)).
Definition backord (s : st) (n : N) : Q := qmax 0 (- gq s (fIL, n, Ext)).
Definition in_transit_from (s : st) (d : N) (p : N) : Q := qsum (gl s (fSP, d, Nd p)).
Definition echelon_il (s : st) (n : N) : Q :=
  let ds := descendants n in
  on_hand s n
  + qsumf (fun d => on_hand s d + qsumf (fun p => if N.eqb p n || memN p ds then in_transit_from s d p else 0) (preds (C d))) ds
  - qsumf (fun d => match succs (C d) with [] => backord s d | _ => 0 end) (ds ++ [n]).
Definition avg_over_suppliers (s : st) (f : fld) (n : N) : Q :=
  let sup := suppliers (C n) in
  let tot := qsumf (fun p => gq s (f, n, p)) sup in
  if qeqb tot 0 then 0 else tot / qnat (length sup).
Definition echelon_ip (s : st) (n : N) : Q :=
  echelon_il s n + avg_over_suppliers s fOO n + avg_over_suppliers s fRM n + avg_over_suppliers s fIDI n.

(* ---------- orders phase ---------- *)
Definition gen_demand (s : st) (n : N) : st :=
  if has_dem (C n) then sl s (fOP, n, Ext) [dem n] else s.

(* sim._receive_inbound_orders *)
Definition recv_order_one (n : N) (s : st) (c : nb) : st :=
  let pipe := gl s (fOP, n, c) in
  let x := hd0 pipe in
  let s := sq s (fIO, n, c) x in
  let s := sl s (fOP, n, c) (zero0 pipe) in
  let s := addq s (fDC, n, Ext) x in
  let s := addq s (fPIO, n, c) x in
  let s := addq s (fPEND, n, Ext) x in
  addq s (fcIO, n, c) x.
Definition recv_orders (s : st) (n : N) : st := fold_left (recv_order_one n) (customers (C n)) s.

(* node_state_vars.inventory_position (single product: NBOM = 1, no earmarked units) minus this period's demand *)
Definition local_ip (s : st) (n : N) : Q :=
  gq s (fIL, n, Ext)
  + qmin_list (map (fun p => gq s (fRM, n, p) + gq s (fOO, n, p) + gq s (fIDI, n, p)) (suppliers (C n)))
  - qsumf (fun c => gq s (fIO, n, c)) (customers (C n)).
Definition obs_ip (s : st) (n : N) : Q :=
  match pol (C n) with
  | EBS _ => echelon_ip s n - qsumf (fun c => gq s (fIO, n, c)) (customers (C n))
  | _ => local_ip s n
  end.
(* Qred: normal form only (keeps denominators from growing when the echelon position averages over suppliers) *)
Definition order_qty (s : st) (n : N) : Q := Qred (capped (C n) (rule (pol (C n)) (obs_ip s n))).

Definition place_one (n : N) (oq : Q) (s : st) (p : nb) : st :=
  let c := C n in
  let s := match p with
           | Nd p' => sl s (fOP, p', Nd n) (add_at (olt c) oq (gl s (fOP, p', Nd n)))
           | Ext => sl s (fSP, n, Ext) (add_at (olt c + slt c) oq (gl s (fSP, n, Ext)))
           end in
  let s := addq s (fOQ, n, p) oq in
  let s := addq s (fOO, n, p) oq in
  addq s (fcOQ, n, p) oq.
Definition place_order (s : st) (n : N) : st :=
  if disk n dOP then s else
  let oq := order_qty s n in
  let s := addq s (fOQFG, n, Ext) oq in
  let s := addq s (fPFG, n, Ext) oq in
  fold_left (place_one n oq) (suppliers (C n)) s.

Definition orders_action (s : st) (n : N) : st := place_order (recv_orders (gen_demand s n) n) n.

(* ---------- shipments phase ---------- *)
(* sim._receive_inbound_shipments *)
Definition recv_ship_one (n : N) (s : st) (p : nb) : st :=
  let pipe := gl s (fSP, n, p) in
  let rtr := hd0 pipe in
  let idi := gq s (fIDI, n, p) in
  let rp := disk n dRP in
  let is_ := if rp then 0 else rtr + idi in
  let s := sq s (fIS, n, p) is_ in
  let s := sl s (fSP, n, p) (zero0 pipe) in
  let s := addq s (fRM, n, p) is_ in
  let s := addq s (fOO, n, p) (- rtr) in
  let s := sq s (fIDI, n, p) (if rp then idi + rtr else 0) in
  addq s (fcIS, n, p) is_.
Definition recv_ship (s : st) (n : N) : st := fold_left (recv_ship_one n) (suppliers (C n)) s.

(* sim._raw_materials_to_finished_goods, NBOM = 1: make min over raw materials *)
Definition produce (s : st) (n : N) : st * Q :=
  let sup := suppliers (C n) in
  let made := qmin_list (map (fun p => gq s (fRM, n, p)) sup) in
  let s := fold_left (fun s p => addq s (fRM, n, p) (- made)) sup s in
  let s := addq s (fIL, n, Ext) made in
  let s := addq s (fPFG, n, Ext) (- made) in
  (addq s (fCP, n, Ext) made, made).

(* sim._process_outbound_shipments, one successor (lines 299-324 of the stripped source) *)
Record sout := { o_os : Q; o_bo : Q; o_odi : Q; o_dmfs : Q; o_oh : Q }.
Definition serve_calc (oh bo io odi : Q) (sp : bool) : sout :=
  let rts := qmin oh (bo + io) in
  let OS := if sp then 0 else rts + odi in
  let ODI := if sp then rts else 0 in
  let BO_to_DI := if sp then qmin rts bo else 0 in
  let ND_to_DI := if sp then ODI - BO_to_DI else 0 in
  let DI_OS := qmin OS odi in
  let BO_OS := qmin (OS - DI_OS) bo in
  let non := OS - BO_OS - DI_OS in
  {| o_os := OS;
     o_bo := bo - (BO_OS + BO_to_DI) + qmax 0 (io - ND_to_DI - non);
     o_odi := odi + ODI - DI_OS;
     o_dmfs := qmax 0 (OS - bo);
     o_oh := oh - (OS - DI_OS + ODI) |}.
Definition serve_one (n : N) (acc : st * Q) (c : nb) : st * Q :=
  let '(s, oh) := acc in
  let sp := match c with Nd c' => disk c' dSP | Ext => false end in
  let bo := gq s (fBO, n, c) in
  let io := gq s (fPIO, n, c) in
  let odi := gq s (fODI, n, c) in
  let o := serve_calc oh bo io odi sp in
  let s := sq s (fOS, n, c) (o_os o) in
  let s := addq s (fDMFS, n, Ext) (o_dmfs o) in
  let s := addq s (fDMC, n, Ext) (o_dmfs o) in
  let s := addq s (fIL, n, Ext) (- io) in
  let s := sq s (fBO, n, c) (o_bo o) in
  let s := sq s (fODI, n, c) (o_odi o) in
  let s := sq s (fPIO, n, c) 0 in
  let s := addq s (fPEND, n, Ext) (- io) in
  let s := addq s (fSRV, n, Ext) io in
  let s := addq s (fcOS, n, c) (o_os o) in
  let s := match c with
           | Nd c' => sl s (fSP, c', Nd n) (add_at (slt (C c')) (o_os o) (gl s (fSP, c', Nd n)))
           | Ext => s end in
  (s, o_oh o).
Definition serve (s : st) (n : N) (il0 made : Q) : st :=
  let s := sq s (fDMFS, n, Ext) 0 in
  fst (fold_left (serve_one n) (customers (C n)) (s, qmax 0 il0 + made)).

Definition fill_rate (s : st) (n : N) : st :=
  let dc := gq s (fDC, n, Ext) in
  sq s (fFR, n, Ext) (if qltb 0 dc then gq s (fDMC, n, Ext) / dc else 1).

Definition ships_action (s : st) (n : N) : st :=
  let il0 := gq s (fIL, n, Ext) in
  let s := recv_ship s n in
  let '(s, made) := produce s n in
  let s := serve s n il0 made in
  fill_rate s n.

(* ---------- visit orders (the two depth-first traversals of sim.step) ---------- *)
Fixpoint dfs_orders (fuel : nat) (acc : list N * list N) (n : N) : list N * list N :=   (* (visited, post-order) *)
  match fuel with
  | O => acc
  | S f => let '(vis, out) := acc in
           if memN n vis then acc else
           let '(vis', out') := fold_left (dfs_orders f) (succs (C n)) (n :: vis, out) in
           (vis', out' ++ [n])
  end.
Fixpoint dfs_ships (fuel : nat) (acc : list N * list N) (n : N) : list N * list N :=
  match fuel with
  | O => acc
  | S f => let '(vis, out) := acc in
           if memN n vis then acc else
           fold_left (fun a s => if forallb (fun p => memN p (fst a)) (preds (C s)) then dfs_ships f a s else a)
                     (succs (C n)) (n :: vis, out ++ [n])
  end.
Definition sources : list N := filter (fun n => match preds (C n) with [] => true | _ => false end) (nodes NW).
Definition order_visit : list N := snd (fold_left (dfs_orders (S (length (nodes NW)))) sources ([], [])).
Definition ship_visit : list N := snd (fold_left (dfs_ships (S (length (nodes NW)))) sources ([], [])).

(* ---------- costs (sim._calculate_period_costs) read off the end-of-period state ---------- *)
Record costs := { c_hc : Q; c_sc : Q; c_ithc : Q; c_rev : Q; c_tc : Q }.
Definition node_costs (s : st) (n : N) : costs :=
  let c := C n in
  let held := qmax 0 (gq s (fIL, n, Ext)) + qsumf (fun x => gq s (fODI, n, x)) (customers c) in
  let hcv := hc c * held + qsumf (fun p => hc (C p) * (gq s (fRM, n, Nd p) + gq s (fIDI, n, Nd p))) (preds c) in
  let scv := pc c * qmax 0 (- gq s (fIL, n, Ext)) in
  let hh := match ith c with Some x => x | None => hc c end in
  let itv := hh * qsumf (fun x => qsum (gl s (fSP, x, Nd n))) (succs c) in
  let rvv := rev c * qsumf (fun x => gq s (fOS, n, x)) (customers c) in
  {| c_hc := hcv; c_sc := scv; c_ithc := itv; c_rev := rvv; c_tc := hcv + scv + itv - rvv |}.

(* ---------- end of period: sim._initialize_next_period_state_vars ---------- *)
Definition next_node (s : st) (n : N) : st :=
  let c := C n in
  let s := fold_left (fun s p => let s := if disk n dTP then s else sl s (fSP, n, p) (shift_sp (gl s (fSP, n, p))) in
                                 sq (sq s (fIS, n, p) 0) (fOQ, n, p) 0) (suppliers c) s in
  let s := fold_left (fun s x => let s := addq s (fLOST, n, x) (hd0 (gl s (fOP, n, x))) in
                                 let s := sl s (fOP, n, x) (shift_op (gl s (fOP, n, x))) in
                                 sq (sq s (fIO, n, x) 0) (fOS, n, x) 0) (customers c) s in
  sq (sq (sq s (fOQFG, n, Ext) 0) (fDMFS, n, Ext) 0) (fFR, n, Ext) 0.
Definition next_period (s : st) : st := fold_left next_node (nodes NW) s.

Definition run_actions (s : st) : st :=
  fold_left ships_action ship_visit (fold_left orders_action order_visit s).
End Step.

(* ---------- initial state (sim._initialize_state_vars) ---------- *)
Definition init_node (NW : net) (s : st) (n : N) : st :=
  let c := cfg NW n in
  let il := match init_il c with Some x => x | None => rule (pol c) 0 end in
  let s := sq s (fIL, n, Ext) il in
  let s := fold_left (fun s x => match x with
             | Nd x' => sl s (fOP, n, x) (repeat (init_orders (cfg NW x')) (olt (cfg NW x')) ++ [0])
             | Ext => sl s (fOP, n, x) [0] end) (customers c) s in
  fold_left (fun s p =>
     let s := sl s (fSP, n, p) (repeat (init_ships c) (slt c)
                                ++ repeat (match p with Ext => init_orders c | Nd _ => 0 end) (olt c) ++ [0]) in
     sq s (fOO, n, p) (init_ships c * qnat (slt c) + init_orders c * qnat (olt c))) (suppliers c) s.
Definition init_state (NW : net) : st := fold_left (init_node NW) (nodes NW) empty_st.

(* ---------- run: list of end-of-period states (records) ---------- *)
Fixpoint run_from (NW : net) (s : st) (inputs : list ((N -> bool) * (N -> Q))) : list st :=
  match inputs with
  | [] => []
  | (dis, dem) :: r => let e := run_actions NW dis dem s in e :: run_from NW (next_period NW dis e) r
  end.
Definition run (NW : net) (inputs : list ((N -> bool) * (N -> Q))) : list st := run_from NW (init_state NW) inputs.

(* value returned by sim.simulation: sum of total costs over nodes and periods *)
Definition total_cost (NW : net) (recs : list st) : Q :=
  qsum (map (fun e => qsumf (fun n => c_tc (node_costs NW e n)) (nodes NW)) recs).
