(* Simulator invariants, part 4: node-level identities that involve sums over a node's customers:
   backorders = negative part of the inventory level, the shipping bound, demand met from stock <= demand. *)
From SV Require Import Sim.Model Sim.StateLemmas Sim.Inv_base Sim.Inv_book.

(* updating one element of a duplicate-free list changes the sum by the difference *)
Lemma qsumf_update {A} (eq_dec : forall a b : A, {a = b} + {a <> b}) (g g' : A -> Q) l c :
  NoDup l -> (forall x, x <> c -> g' x = g x) ->
  qsumf g' l == qsumf g l + (if in_dec eq_dec c l then g' c - g c else 0).
Proof. unfold qsumf. induction l as [|a r IH]; intros ND Hg; cbn [map qsum].
  - destruct (in_dec eq_dec c []) as [[]|_]. lra.
  - inversion ND as [|? ? Hna Hr]; subst. specialize (IH Hr Hg).
    destruct (eq_dec a c) as [E|NE].
    + subst. destruct (in_dec eq_dec c (c :: r)) as [_|N]; [|exfalso; apply N; left; reflexivity].
      destruct (in_dec eq_dec c r) as [I|_]; [contradiction|]. lra.
    + rewrite (Hg a NE). destruct (in_dec eq_dec c (a :: r)) as [[E|I]|N]; [congruence| |].
      * destruct (in_dec eq_dec c r) as [_|N']; [lra|contradiction].
      * destruct (in_dec eq_dec c r) as [I|_]; [exfalso; apply N; right; exact I|lra]. Qed.
Lemma qsumf_ext {A} (g g' : A -> Q) l : (forall x, In x l -> g' x == g x) -> qsumf g' l == qsumf g l.
Proof. unfold qsumf. apply qsum_map_ext. Qed.
Lemma qsumf_nonneg {A} (g : A -> Q) l : (forall x, In x l -> 0 <= g x) -> 0 <= qsumf g l.
Proof. unfold qsumf. intros H. apply qsum_nonneg. apply Forall_forall. intros y Hy. apply in_map_iff in Hy. destruct Hy as (x & E & Hx). subst. apply H. exact Hx. Qed.

Ltac fsel := first [left; reflexivity | right; left; reflexivity | right; right; left; reflexivity | right; right; right; reflexivity].

Section Node.
Variable (NW : net) (dis : N -> bool) (dem : N -> Q).
Notation C := (cfg NW).
Definition SF (f : fld) (s : st) (n : N) (l : list nb) : Q := qsumf (fun c => gq s (f, n, c)) l.

(* ---- effect of serving one customer on the node-level fields ---- *)
Lemma serve_one_eff n s oh c :
  let o := serve_calc oh (gq s (fBO, n, c)) (gq s (fPIO, n, c)) (gq s (fODI, n, c)) (match c with Nd c' => disk NW dis c' dSP | Ext => false end) in
  let r := serve_one NW dis n (s, oh) c in
  snd r = o_oh o /\
  gq (fst r) (fBO, n, c) = o_bo o /\ gq (fst r) (fODI, n, c) = o_odi o /\ gq (fst r) (fPIO, n, c) = 0 /\ gq (fst r) (fOS, n, c) = o_os o /\
  gq (fst r) (fIL, n, Ext) = gq s (fIL, n, Ext) + - gq s (fPIO, n, c) /\
  gq (fst r) (fPEND, n, Ext) = gq s (fPEND, n, Ext) + - gq s (fPIO, n, c) /\
  gq (fst r) (fSRV, n, Ext) = gq s (fSRV, n, Ext) + gq s (fPIO, n, c) /\
  gq (fst r) (fDMC, n, Ext) = gq s (fDMC, n, Ext) + o_dmfs o /\
  (forall f n' c', (n', c') <> (n, c) -> (f = fBO \/ f = fODI \/ f = fPIO \/ f = fOS) -> gq (fst r) (f, n', c') = gq s (f, n', c')) /\
  (forall f n', n' <> n -> (f = fIL \/ f = fPEND \/ f = fSRV \/ f = fDMC) -> gq (fst r) (f, n', Ext) = gq s (f, n', Ext)).
Proof.
  cbv zeta. unfold serve_one. set (o := serve_calc _ _ _ _ _).
  assert (E : forall k, gq (fst (let s0 := addq (addq (addq (sq (sq (sq (addq (addq (addq (sq s (fOS, n, c) (o_os o)) (fDMFS, n, Ext) (o_dmfs o)) (fDMC, n, Ext) (o_dmfs o))
             (fIL, n, Ext) (- gq s (fPIO, n, c))) (fBO, n, c) (o_bo o)) (fODI, n, c) (o_odi o)) (fPIO, n, c) 0)
             (fPEND, n, Ext) (- gq s (fPIO, n, c))) (fSRV, n, Ext) (gq s (fPIO, n, c))) (fcOS, n, c) (o_os o) in
             (match c with Nd c' => sl s0 (fSP, c', Nd n) (add_at (slt (C c')) (o_os o) (gl s0 (fSP, c', Nd n))) | Ext => s0 end, o_oh o))) k
           = gq (addq (addq (addq (sq (sq (sq (addq (addq (addq (sq s (fOS, n, c) (o_os o)) (fDMFS, n, Ext) (o_dmfs o)) (fDMC, n, Ext) (o_dmfs o))
             (fIL, n, Ext) (- gq s (fPIO, n, c))) (fBO, n, c) (o_bo o)) (fODI, n, c) (o_odi o)) (fPIO, n, c) 0)
             (fPEND, n, Ext) (- gq s (fPIO, n, c))) (fSRV, n, Ext) (gq s (fPIO, n, c))) (fcOS, n, c) (o_os o)) k).
  { intros k. destruct c; cbn [fst]; [reflexivity|apply gq_sl]. }
  cbv zeta in E.
  split; [destruct c; reflexivity|].
  repeat split; try (rewrite E; gs; reflexivity).
  - intros f n' c' Hne Hf. rewrite E.
    assert (HK : forall g : fld, (g, n', c') <> (g, n, c)) by (intros g X; inversion X; subst; apply Hne; reflexivity).
    destruct Hf as [F|[F|[F|F]]]; subst f; repeat first [gs1 | rewrite gq_sq_other by apply HK | rewrite gq_addq_other by apply HK]; reflexivity.
  - intros f n' Hne Hf. rewrite E.
    assert (HK : forall g : fld, (g, n', Ext) <> (g, n, Ext)) by (intros g X; inversion X; subst; apply Hne; reflexivity).
    destruct Hf as [F|[F|[F|F]]]; subst f; repeat first [gs1 | rewrite gq_sq_other by apply HK | rewrite gq_addq_other by apply HK]; reflexivity.
Qed.

(* ---- the fold over a duplicate-free customer list ---- *)
Lemma serve_fold_spec n : forall l s oh, NoDup l -> NN s -> 0 <= oh ->
  let r := fold_left (serve_one NW dis n) l (s, oh) in
  let s' := fst r in let oh' := snd r in
  0 <= oh' /\ oh' <= oh /\
  SF fBO s' n l == SF fBO s n l + SF fPIO s n l - (oh - oh') /\
  (0 < oh' -> SF fBO s' n l == 0) /\ 0 <= SF fBO s' n l /\
  gq s' (fIL, n, Ext) == gq s (fIL, n, Ext) - SF fPIO s n l /\
  SF fPIO s' n l == 0 /\
  gq s' (fPEND, n, Ext) == gq s (fPEND, n, Ext) - SF fPIO s n l /\
  gq s' (fSRV, n, Ext) == gq s (fSRV, n, Ext) + SF fPIO s n l /\
  gq s' (fDMC, n, Ext) + SF fBO s' n l + SF fODI s' n l <= gq s (fDMC, n, Ext) + SF fBO s n l + SF fODI s n l + SF fPIO s n l /\
  SF fOS s' n l + SF fODI s' n l - SF fODI s n l == oh - oh' /\
  (forall f c, ~ In c l -> (f = fBO \/ f = fODI \/ f = fPIO \/ f = fOS) -> gq s' (f, n, c) = gq s (f, n, c)) /\
  (forall f n' c, n' <> n -> (f = fBO \/ f = fODI \/ f = fPIO \/ f = fOS) -> gq s' (f, n', c) = gq s (f, n', c)) /\
  (forall f n', n' <> n -> (f = fIL \/ f = fPEND \/ f = fSRV \/ f = fDMC) -> gq s' (f, n', Ext) = gq s (f, n', Ext)).
Proof.
  induction l as [|c r IH]; intros s oh ND HN Hoh; cbn [fold_left].
  - cbv zeta. unfold SF, qsumf. cbn [fst snd map qsum]. repeat split; try lra; intros; reflexivity.
  - inversion ND as [|? ? Hnc Hr]; subst.
    pose proof (serve_one_eff n s oh c) as EF. cbv zeta in EF.
    set (o := serve_calc oh (gq s (fBO, n, c)) (gq s (fPIO, n, c)) (gq s (fODI, n, c)) (match c with Nd c' => disk NW dis c' dSP | Ext => false end)) in *.
    destruct (NN_serve_one NW dis n (s, oh) c HN Hoh) as [N1 O1].
    destruct (serve_one NW dis n (s, oh) c) as [s1 oh1] eqn:E1. cbn [fst snd] in *.
    destruct EF as (Eoh & Ebo & Eodi & Epio & Eos & Eil & Epend & Esrv & Edmc & Fc & Fn).
    assert (Hb : 0 <= gq s (fBO, n, c)) by (apply NN_q; [exact HN|reflexivity]).
    assert (Hi : 0 <= gq s (fPIO, n, c)) by (apply NN_q; [exact HN|reflexivity]).
    assert (Hd : 0 <= gq s (fODI, n, c)) by (apply NN_q; [exact HN|reflexivity]).
    pose proof (serve_calc_spec oh _ _ _ (match c with Nd c' => disk NW dis c' dSP | Ext => false end) Hoh Hb Hi Hd) as S. cbv zeta in S. fold o in S.
    destruct S as (So & Soh & Sbo & Pbo & Pos & Podi & Scons & Sdm & Pdm & Sz & _ & _).
    specialize (IH s1 oh1 Hr N1 O1). cbv zeta in IH.
    set (s' := fst (fold_left (serve_one NW dis n) r (s1, oh1))) in *.
    set (oh' := snd (fold_left (serve_one NW dis n) r (s1, oh1))) in *.
    destruct IH as (I0 & I1 & Ibo & Iz & Ipos & Iil & Ipio & Ipend & Isrv & Idm & Ios & Ic & In1 & In2).
    (* sums over r are untouched by serving c *)
    assert (R : forall f, (f = fBO \/ f = fODI \/ f = fPIO \/ f = fOS) -> SF f s1 n r == SF f s n r).
    { intros f Hf. unfold SF. apply qsumf_ext. intros x Hx. rewrite Fc; [reflexivity| |exact Hf]. intro X. inversion X; subst. contradiction. }
    assert (Kc : forall f, (f = fBO \/ f = fODI \/ f = fPIO \/ f = fOS) -> gq s' (f, n, c) = gq s1 (f, n, c)) by (intros f Hf; apply Ic; assumption).
    unfold SF, qsumf in *. cbn [map qsum].
    rewrite !Kc by fsel. rewrite Ebo, Eodi, Epio, Eos.
    rewrite (R fBO), (R fODI), (R fPIO), ?(R fOS) in * by fsel.
    rewrite Eoh in *.
    repeat split.
    + exact I0.
    + lra.
    + lra.
    + intros Hp. specialize (Iz Hp). assert (0 < o_oh o) by lra. specialize (Sz H). lra.
    + lra.
    + rewrite Iil, Eil. lra.
    + lra.
    + rewrite Ipend, Epend. lra.
    + rewrite Isrv, Esrv. lra.
    + rewrite Edmc in Idm. lra.
    + lra.
    + intros f x Hx Hf. rewrite Ic by (try tauto; intro; apply Hx; right; assumption). apply Fc; [|exact Hf]. intro X. inversion X; subst. apply Hx. left. reflexivity.
    + intros f n' x Hn Hf. rewrite In1 by assumption. apply Fc; [|exact Hf]. intro X. inversion X; subst. apply Hn. reflexivity.
    + intros f n' Hn Hf. rewrite In2 by assumption. apply Fn; assumption.
Qed.
End Node.

(* ---------- the node invariant ---------- *)
Section NodeInv.
Variable (NW : net) (dis : N -> bool) (dem : N -> Q).
Notation C := (cfg NW).
Hypothesis WF : wf_net NW.

Record ND (s : st) : Prop := {
  (* backorders owed to the customers add up to the negative part of the inventory level *)
  nd_bo : forall n, SF fBO s n (customers (C n)) == qmax 0 (- gq s (fIL, n, Ext));
  nd_pend : forall n, gq s (fPEND, n, Ext) == SF fPIO s n (customers (C n));
  (* demand met from stock + what is still owed (backordered or held) never exceeds the orders served *)
  nd_dm : forall n, gq s (fDMC, n, Ext) + SF fBO s n (customers (C n)) + SF fODI s n (customers (C n)) <= gq s (fSRV, n, Ext) }.

Definition NF (f : fld) : Prop := f = fBO \/ f = fODI \/ f = fPIO \/ f = fIL \/ f = fPEND \/ f = fSRV \/ f = fDMC.
Definition same_on (s s' : st) : Prop := forall f n x, NF f -> gq s' (f, n, x) = gq s (f, n, x).
Lemma same_refl s : same_on s s.  Proof. intros f n x _. reflexivity. Qed.
Lemma same_trans s1 s2 s3 : same_on s1 s2 -> same_on s2 s3 -> same_on s1 s3.
Proof. intros H1 H2 f n x Hf. rewrite H2, H1 by exact Hf. reflexivity. Qed.
Lemma same_sq s0 s f n x v : ~ NF f -> same_on s0 s -> same_on s0 (sq s (f, n, x) v).
Proof. intros Hf H g m y Hg. rewrite gq_sq_other; [apply H; exact Hg|]. intro E. inversion E; subst. contradiction. Qed.
Lemma same_addq s0 s f n x v : ~ NF f -> same_on s0 s -> same_on s0 (addq s (f, n, x) v).
Proof. intros Hf H. unfold addq. apply same_sq; assumption. Qed.
Lemma same_sl s0 s k v : same_on s0 s -> same_on s0 (sl s k v).
Proof. intros H g m y Hg. rewrite gq_sl. apply H. exact Hg. Qed.
Ltac notNF := let H := fresh in intro H; unfold NF in H; repeat (destruct H as [H|H]; [discriminate|]); discriminate.
Ltac same_tac := repeat first [apply same_sl | apply same_sq; [notNF|] | apply same_addq; [notNF|] | apply same_refl | assumption].

Lemma SF_same f s s' n l : NF f -> same_on s s' -> SF f s' n l == SF f s n l.
Proof. intros Hf H. unfold SF. apply qsumf_ext. intros x _. rewrite H by exact Hf. reflexivity. Qed.
Lemma ND_same s s' : same_on s s' -> ND s -> ND s'.
Proof. intros H [H1 H2 H3]. constructor; intros n.
  - rewrite (SF_same fBO s s') by (try exact H; unfold NF; tauto). rewrite (H fIL n Ext) by (unfold NF; tauto). apply H1.
  - rewrite (SF_same fPIO s s') by (try exact H; unfold NF; tauto). rewrite (H fPEND n Ext) by (unfold NF; tauto). apply H2.
  - rewrite (SF_same fBO s s'), (SF_same fODI s s') by (try exact H; unfold NF; tauto).
    rewrite (H fDMC n Ext), (H fSRV n Ext) by (unfold NF; tauto). apply H3. Qed.

Lemma same_gen_demand s n : same_on s (gen_demand NW dem s n).
Proof. unfold gen_demand. destruct (has_dem (C n)); same_tac. Qed.
Lemma same_place_one n oq s0 s p : same_on s0 s -> same_on s0 (place_one NW n oq s p).
Proof. intros H. unfold place_one. destruct p; same_tac. Qed.
Lemma same_place_order s n : same_on s (place_order NW dis s n).
Proof. unfold place_order. destruct (disk NW dis n dOP); [apply same_refl|].
  apply fold_left_inv; [intros a x _ Ha; apply same_place_one; exact Ha|]. same_tac. Qed.
Lemma same_recv_ship s n : same_on s (recv_ship NW dis s n).
Proof. unfold recv_ship. apply fold_left_inv; [|apply same_refl]. intros a x _ Ha. unfold recv_ship_one. same_tac. Qed.
Lemma same_next_period s : same_on s (next_period NW dis s).
Proof. unfold next_period. apply fold_left_inv; [|apply same_refl]. intros a n _ Ha. unfold next_node. same_tac.
  apply fold_left_inv.
  { intros b x _ Hb. same_tac. }
  apply fold_left_inv; [|exact Ha]. intros b x _ Hb. same_tac. destruct (disk NW dis n dTP); same_tac. Qed.

(* receiving the inbound orders *)
Lemma ND_recv_order_one n s c : In c (customers (C n)) -> ND s -> ND (recv_order_one n s c).
Proof. intros Hin [H1 H2 H3]. unfold recv_order_one. set (x := hd0 (gl s (fOP, n, c))).
  set (s' := addq (addq (addq (addq (sl (sq s (fIO, n, c) x) (fOP, n, c) (zero0 (gl s (fOP, n, c)))) (fDC, n, Ext) x) (fPIO, n, c) x) (fPEND, n, Ext) x) (fcIO, n, c) x).
  assert (G : forall f m y, f <> fPIO -> f <> fPEND -> NF f -> gq s' (f, m, y) = gq s (f, m, y)).
  { intros f m y F1 F2 Hf. unfold s'. rewrite !gq_addq_other by (intro E; inversion E; subst; unfold NF in Hf; intuition congruence).
    rewrite gq_sl, gq_sq_other by (intro E; inversion E; subst; unfold NF in Hf; intuition congruence). reflexivity. }
  assert (GP : forall m y, (m, y) <> (n, c) -> gq s' (fPIO, m, y) = gq s (fPIO, m, y)).
  { intros m y Hne. unfold s'. rewrite gq_addq_other by discriminate. rewrite gq_addq_other by discriminate.
    rewrite gq_addq_other by (intro E; inversion E; subst; apply Hne; reflexivity). gs. reflexivity. }
  assert (GP2 : gq s' (fPIO, n, c) = gq s (fPIO, n, c) + x) by (unfold s'; gs; reflexivity).
  assert (GE : forall m, m <> n -> gq s' (fPEND, m, Ext) = gq s (fPEND, m, Ext)).
  { intros m Hne. unfold s'. rewrite gq_addq_other by discriminate. rewrite gq_addq_other by (intro E; inversion E; subst; apply Hne; reflexivity). gs. reflexivity. }
  assert (GE2 : gq s' (fPEND, n, Ext) = gq s (fPEND, n, Ext) + x) by (unfold s'; gs; reflexivity).
  assert (SB : forall f m, f <> fPIO -> f <> fPEND -> NF f -> SF f s' m (customers (C m)) == SF f s m (customers (C m))).
  { intros f m F1 F2 Hf. unfold SF. apply qsumf_ext. intros y _. rewrite G by assumption. reflexivity. }
  constructor; intros m.
  - rewrite SB by (try discriminate; unfold NF; tauto). rewrite G by (try discriminate; unfold NF; tauto). apply H1.
  - destruct (N.eq_dec m n) as [E|NE].
    + subst m. rewrite GE2. unfold SF.
      rewrite (qsumf_update nb_eq_dec (fun y => gq s (fPIO, n, y)) (fun y => gq s' (fPIO, n, y)) (customers (C n)) c (wf_cus NW WF n)).
      2:{ intros y Hy. apply GP. intro E. inversion E; subst. apply Hy. reflexivity. }
      destruct (in_dec nb_eq_dec c (customers (C n))) as [_|N']; [|contradiction]. rewrite GP2. specialize (H2 n). unfold SF in H2. lra.
    + rewrite GE by exact NE. unfold SF. rewrite qsumf_ext with (g := fun y => gq s (fPIO, m, y)); [apply H2|].
      intros y _. rewrite GP; [reflexivity|]. intro E. inversion E; subst. apply NE. reflexivity.
  - rewrite !SB by (try discriminate; unfold NF; tauto). rewrite !G by (try discriminate; unfold NF; tauto). apply H3.
Qed.

Lemma ND_orders_action s n : ND s -> ND (orders_action NW dis dem s n).
Proof. intros H. unfold orders_action. apply (ND_same _ _ (same_place_order _ n)).
  unfold recv_orders. apply fold_left_inv; [intros a x Hx Ha; apply ND_recv_order_one; assumption|].
  apply (ND_same _ _ (same_gen_demand s n)). exact H. Qed.

(* production then shipping at one node *)
Lemma produce_eff s n : let r := produce NW s n in
  (forall f m x, NF f -> (f, m, x) <> (fIL, n, Ext) -> gq (fst r) (f, m, x) = gq s (f, m, x)) /\
  gq (fst r) (fIL, n, Ext) = gq s (fIL, n, Ext) + snd r.
Proof. cbv zeta. unfold produce. cbn [fst snd]. set (made := qmin_list _).
  destruct (produce_fold n made (suppliers (C n)) s (wf_sup NW WF n)) as (F & U & L).
  set (s1 := fold_left _ _ s) in *.
  assert (FR : forall f m x, f <> fRM -> gq s1 (f, m, x) = gq s (f, m, x)).
  { intros f m x Hf. apply F. intros p _ E. inversion E. contradiction. }
  split.
  - intros f m x Hf Hne. rewrite gq_addq_other by (intro E; inversion E; subst; unfold NF in Hf; intuition congruence).
    rewrite gq_addq_other by (intro E; inversion E; subst; unfold NF in Hf; intuition congruence).
    rewrite gq_addq_other by (intro E; apply Hne; exact E). apply FR. intro E; subst. unfold NF in Hf; intuition congruence.
  - gs. rewrite FR by discriminate. reflexivity. Qed.

Theorem ND_ships_action s n : NN s -> ND s ->
  ND (ships_action NW dis s n) /\
  (* shipping bound: what leaves the shelf (shipped, minus released held items, plus newly held items)
     is at most what was on hand plus what was produced this period *)
  (exists made, 0 <= made /\
     SF fOS (ships_action NW dis s n) n (customers (C n)) + SF fODI (ships_action NW dis s n) n (customers (C n)) - SF fODI s n (customers (C n))
       <= qmax 0 (gq s (fIL, n, Ext)) + made /\
     gq (ships_action NW dis s n) (fIL, n, Ext) == gq s (fIL, n, Ext) + made - SF fPIO s n (customers (C n))) /\
  (* nothing is left pending at n, and the other nodes' order books are untouched *)
  SF fPIO (ships_action NW dis s n) n (customers (C n)) == 0 /\
  (forall f n' c, n' <> n -> (f = fBO \/ f = fODI \/ f = fPIO) -> gq (ships_action NW dis s n) (f, n', c) = gq s (f, n', c)).
Proof.
  intros HN HD. unfold ships_action.
  set (il0 := gq s (fIL, n, Ext)).
  pose proof (same_recv_ship s n) as S1. pose proof (NN_recv_ship NW dis s n HN) as N1.
  set (s1 := recv_ship NW dis s n) in *.
  pose proof (produce_eff s1 n) as PE. cbv zeta in PE. pose proof (NN_produce NW WF s1 n N1) as [N2 Hm].
  destruct (produce NW s1 n) as [s2 made]. cbn [fst snd] in *. destruct PE as [P1 P2].
  set (s3 := sq s2 (fDMFS, n, Ext) 0).
  assert (N3 : NN s3) by (apply NN_sq; [exact N2|intros _; lra]).
  assert (Hoh : 0 <= qmax 0 il0 + made) by (qcases; lra).
  pose proof (serve_fold_spec NW dis dem n (customers (C n)) s3 (qmax 0 il0 + made) (wf_cus NW WF n) N3 Hoh) as SP. cbv zeta in SP.
  unfold serve. fold s3.
  set (s4 := fst (fold_left (serve_one NW dis n) (customers (C n)) (s3, qmax 0 il0 + made))) in *.
  set (oh' := snd (fold_left (serve_one NW dis n) (customers (C n)) (s3, qmax 0 il0 + made))) in *.
  destruct SP as (I0 & I1 & Ibo & Iz & Ipos & Iil & Ipio & Ipend & Isrv & Idm & Ios & Ic & In1 & In2).
  (* relate s3 to s on the node fields *)
  assert (E3 : forall f m x, NF f -> (f, m, x) <> (fIL, n, Ext) -> gq s3 (f, m, x) = gq s (f, m, x)).
  { intros f m x Hf Hne. unfold s3. rewrite gq_sq_other by (intro E; inversion E; subst; unfold NF in Hf; intuition congruence).
    rewrite P1 by assumption. apply S1. exact Hf. }
  assert (E3il : gq s3 (fIL, n, Ext) = il0 + made).
  { unfold s3. rewrite gq_sq_other by discriminate. rewrite P2. rewrite (S1 fIL n Ext) by (unfold NF; tauto). reflexivity. }
  assert (SFE : forall f m l, NF f -> f <> fIL -> SF f s3 m l == SF f s m l).
  { intros f m l Hf Hne. unfold SF. apply qsumf_ext. intros x _. rewrite E3; [reflexivity|exact Hf|]. intro E. inversion E; subst. apply Hne. reflexivity. }
  rewrite (SFE fBO), (SFE fPIO) in Ibo by (try discriminate; unfold NF; tauto).
  rewrite (SFE fPIO) in Iil, Ipend, Isrv, Idm by (try discriminate; unfold NF; tauto).
  rewrite (SFE fBO), (SFE fODI) in Idm by (try discriminate; unfold NF; tauto).
  rewrite (SFE fODI) in Ios by (try discriminate; unfold NF; tauto).
  rewrite E3il in Iil. rewrite !E3 in Ipend, Isrv, Idm by (try discriminate; unfold NF; tauto).
  destruct HD as [D1 D2 D3].
  (* fill_rate only writes fFR *)
  assert (SFR : same_on s4 (fill_rate s4 n)) by (unfold fill_rate; same_tac).
  assert (GOS : forall m l, SF fOS (fill_rate s4 n) m l == SF fOS s4 m l).
  { intros m l. unfold SF. apply qsumf_ext. intros x _. unfold fill_rate. rewrite gq_sq_other by discriminate. reflexivity. }
  split.
  - apply (ND_same _ _ SFR). constructor; intros m.
    + destruct (N.eq_dec m n) as [E|NE].
      * subst m. rewrite Iil. rewrite Ibo. specialize (D1 n). fold il0 in D1.
        assert (Ez : 0 < oh' -> SF fBO s4 n (customers (C n)) == 0) by exact Iz. rewrite Ibo in Ez.
        destruct (Qlt_le_dec 0 oh') as [Hp|Hz]; [specialize (Ez Hp); clear - Ez D1 I0 I1 Hp; qcases; lra|].
        assert (oh' == 0) by lra. rewrite Ibo in Ipos. clear - D1 H Ipos. qcases; lra.
      * unfold SF. rewrite qsumf_ext with (g := fun c => gq s (fBO, m, c)).
        2:{ intros x _. rewrite In1 by (try exact NE; tauto). rewrite E3; [reflexivity|unfold NF; tauto|discriminate]. }
        rewrite In2 by (try exact NE; tauto). rewrite E3 by (try (unfold NF; tauto); intro E; inversion E; subst; apply NE; reflexivity). apply D1.
    + destruct (N.eq_dec m n) as [E|NE].
      * subst m. rewrite Ipend, Ipio. specialize (D2 n). lra.
      * unfold SF. rewrite qsumf_ext with (g := fun c => gq s (fPIO, m, c)).
        2:{ intros x _. rewrite In1 by (try exact NE; tauto). rewrite E3; [reflexivity|unfold NF; tauto|discriminate]. }
        rewrite In2 by (try exact NE; tauto). rewrite E3 by (try (unfold NF; tauto); discriminate). apply D2.
    + destruct (N.eq_dec m n) as [E|NE].
      * subst m. rewrite Isrv. specialize (D3 n). specialize (D2 n). lra.
      * unfold SF. rewrite qsumf_ext with (g := fun c => gq s (fBO, m, c)).
        2:{ intros x _. rewrite In1 by (try exact NE; tauto). rewrite E3; [reflexivity|unfold NF; tauto|discriminate]. }
        rewrite qsumf_ext with (g := fun c => gq s (fODI, m, c)) (g' := fun c => gq s4 (fODI, m, c)).
        2:{ intros x _. rewrite In1 by (try exact NE; tauto). rewrite E3; [reflexivity|unfold NF; tauto|discriminate]. }
        rewrite !In2 by (try exact NE; tauto). rewrite !E3 by (try (unfold NF; tauto); discriminate). apply D3.
  - split; [|split].
    + exists made. split; [exact Hm|]. split.
      * rewrite GOS. rewrite (SF_same fODI s4 (fill_rate s4 n)) by (try exact SFR; unfold NF; tauto). lra.
      * rewrite (SFR fIL n Ext) by (unfold NF; tauto). rewrite Iil. lra.
    + rewrite (SF_same fPIO s4 (fill_rate s4 n)) by (try exact SFR; unfold NF; tauto). exact Ipio.
    + intros f n' c Hne Hf. assert (HNF : NF f) by (unfold NF; tauto).
      rewrite (SFR f n' c HNF). rewrite In1 by (try exact Hne; tauto). apply E3; [exact HNF|].
      intro E. inversion E; subst. destruct Hf as [X|[X|X]]; discriminate.
Qed.

Lemma ND_next_period s : ND s -> ND (next_period NW dis s).
Proof. apply ND_same, same_next_period. Qed.

Lemma NNND_run_actions s : (forall n, 0 <= dem n) -> NN s -> ND s -> ND (run_actions NW dis dem s).
Proof. intros Hd HN HD. unfold run_actions.
  set (s1 := fold_left (orders_action NW dis dem) (order_visit NW) s).
  assert (H1 : NN s1 /\ ND s1).
  { unfold s1. apply (fold_left_inv (fun a => NN a /\ ND a)); [|split; assumption].
    intros a x _ [Na Da]. split; [apply NN_orders_action; assumption|apply ND_orders_action; exact Da]. }
  apply (fold_left_inv (fun a => NN a /\ ND a)); [|exact H1].
  intros a x _ [Na Da]. split; [apply NN_ships_action; assumption|apply (proj1 (ND_ships_action a x Na Da))]. Qed.
End NodeInv.
