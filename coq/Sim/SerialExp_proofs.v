(* Step 2: the EXPECTATION step for serial systems.
   For i.i.d. sink demand with a finite pmf (P(D = off + i) = pm_i, sum 1, support below BIG = 10^100), the local base-stock
   serial network [NWloc h p order stages] (any number of stages, non-negative local levels, any shipment lead times, only the
   sink charges a stockout cost), every horizon T and every period t with  L_1 + ... + L_N <= t < T:
       E[ total cost the simulator model charges in period t ]        (expectation over the product law of the T demands)
     = hcost / ecost: the nested sums over independent lead-time demands                        (serial_expected_cost_nested)
     = SSM.topdown p H (rev (combine ssm_stages levels)) None  for integer levels               (serial_expected_cost_topdown)
     = SSM.ssm_cost ... (with_levels ssm_stages levels)  on an exactly represented instance     (serial_expected_cost_ssm)
   with echelon holding rates h^e_j = h_j - h_{j+1}, echelon levels = suffix sums of the local levels, lead-time-demand tables =
   L_j-fold convolutions of pm on the values L_j*off, L_j*off + 1, ... *)
From Coq Require Import Permutation.
From SV Require Import Base.Qx Alg.Gen Alg.Gen_proofs Sim.Model Sim.PerPeriod Sim.Serial Sim.CS Sim.CS_math Sim.CS_run Sim.NVExpect.
From SV Require Alg.SSM Alg.SSM_proofs Alg.SSMCost_proofs.
From SV Require Import Sim.SerialExp Sim.SerialCost_proofs Sim.SerialLaw_proofs Sim.SerialSSM_proofs Sim.SerialPath_proofs.
Open Scope Q_scope.

(* ---- demand lists as simulator inputs ---- *)
Lemma ser_inputs_length ds : length (ser_inputs ds) = length ds.
Proof. unfold ser_inputs. apply map_length. Qed.
Lemma dfn_ser ch ds t : dfn ch (ser_inputs ds) t = dq ds t.
Proof. unfold dfn, ser_inputs, dq.
  change dflt_input with ((fun k => (fun _ : N => false, fun _ : N => qnat k)) 0%nat).
  rewrite map_nth. reflexivity. Qed.
Lemma ser_inputs_ok stages off pm ds : (Z.of_nat (off + length pm) <= 10 ^ 100)%Z ->
  Forall (in_supp off pm) ds -> inputs_ok stages (ser_inputs ds).
Proof. intros Hbig Hs. unfold inputs_ok, ser_inputs. rewrite Forall_map. eapply Forall_impl; [|exact Hs].
  intros k Hk. cbn [fst snd]. split; [reflexivity|]. split; [intros _; apply qnat_nonneg|].
  unfold BIG, qnat. rewrite <- Zle_Qle. unfold in_supp in Hk. lia. Qed.

Lemma pure_cost_ext pH d d' rst t : (forall u, d u == d' u) -> pure_cost pH d rst t == pure_cost pH d' rst t.
Proof. intro H. unfold pure_cost. rewrite (hsum_ext d d' (S t) (fun u _ => H u) rst).
  rewrite (eils_ext d d' (map strip rst) (S t) (fun u _ => H u)). reflexivity. Qed.

(* the sum of the lead times *)
Lemma list_sum_rev l : list_sum (List.rev l) = list_sum l.
Proof. induction l as [|a r IH]; [reflexivity|]. cbn [List.rev]. rewrite list_sum_app, IH. cbn [list_sum fold_right]. unfold list_sum. cbn [fold_right]. lia. Qed.
Lemma leadsum_cst h : forall stages hprev, leadsum (map strip (List.rev (cst h hprev stages))) = list_sum (map sslt stages).
Proof. intros stages hprev. unfold leadsum. rewrite map_rev, map_rev, list_sum_rev.
  revert hprev. induction stages as [|x r IH]; intro hprev; [reflexivity|].
  cbn [cst map]. unfold list_sum in *. cbn [fold_right]. rewrite (IH (h (sidx x))). reflexivity. Qed.

Section Expect.
Variables (h p : N -> Q) (order : list N) (stages : list stage).
Hypothesis Hne : stages <> [].
Hypothesis ND : NoDup (map sidx stages).
Hypothesis Hperm : Permutation order (map sidx stages).
Hypothesis Hl : Forall (fun x => 0 <= slev x) stages.
Hypothesis Hp0 : Forall (fun n => p n == 0) (removelast (map sidx stages)).     (* stockout cost at the sink only *)
Variables (off : nat) (pm : list Q).
Hypothesis H1 : qsum pm == 1.
Hypothesis Hbig : (Z.of_nat (off + length pm) <= 10 ^ 100)%Z.
Notation chs := (map sidx stages).
Notation snk := (sinkn (map sidx stages)).

(* the period cost as a function of the demand sequence: for EVERY period t (also during the warm-up) *)
Theorem serial_period_cost_pathwise pH t ds : pH == p snk + h snk -> (t < length ds)%nat -> Forall (in_supp off pm) ds ->
  serial_period_cost h p order stages t ds == pure_cost pH (dq ds) (List.rev (cst h 0 stages)) t.
Proof. intros HpH Ht Hs. unfold serial_period_cost.
  rewrite (serial_cost_pure h p order stages Hne ND Hperm Hl (ser_inputs ds) (ser_inputs_ok stages off pm ds Hbig Hs) pH t
             ltac:(rewrite ser_inputs_length; exact Ht) Hp0 HpH).
  apply pure_cost_ext. intro u. rewrite dfn_ser. reflexivity. Qed.

(* E[cost of period t] = the nested sums, for L_1 + ... + L_N <= t < T *)
Theorem serial_expected_cost_nested pH t T : pH == p snk + h snk -> (list_sum (map sslt stages) <= t)%nat -> (t < T)%nat ->
  expect_list T off pm (serial_period_cost h p order stages t) == hcost off pm pH (cst h 0 stages) None.
Proof. intros HpH HL Ht.
  rewrite (expect_list_ext_in T off pm _ (fun ds => pure_cost pH (dq ds) (List.rev (cst h 0 stages)) t)).
  - assert (Hc : List.rev (cst h 0 stages) <> []).
    { destruct stages as [|x r]; [congruence|]. cbn [cst List.rev]. intro E. apply (f_equal (@length _)) in E. rewrite app_length in E. cbn [length] in E. lia. }
    rewrite (expect_pure_cost off pm H1 pH _ T t Hc ltac:(rewrite leadsum_cst; exact HL) Ht).
    rewrite (ecost_hcost off pm pH _ Hc), rev_involutive. reflexivity.
  - intros ds Hlen Hs. apply (serial_period_cost_pathwise pH t ds HpH ltac:(lia) Hs). Qed.
End Expect.

(* ---- integer levels: the top-down enumeration of Alg/SSM.v ---- *)
Lemma qz_fold_sum (l : list Z) : SSM.qz (fold_right Z.add 0%Z l) == qsum (map inject_Z l).
Proof. induction l as [|a r IH]; [reflexivity|]. cbn [fold_right map qsum]. unfold SSM.qz in *. rewrite inject_Z_plus, IH. reflexivity. Qed.
Lemma zcst_rel h : forall zs hprev, Forall2 stage_rel (cst h hprev (map zsim_stage zs)) (zcst h hprev zs).
Proof. induction zs as [|x r IH]; intro hprev; cbn [map cst zcst]; constructor; [|apply IH].
  unfold stage_rel, c_he, c_Se, c_L, z_lv, zsim_stage, sidx, slev, sslt. cbn [fst snd]. split; [reflexivity|]. split; [|reflexivity].
  unfold SSM.qz. rewrite inject_Z_plus. fold (SSM.qz (fold_right Z.add 0%Z (map (fun y : zsim => snd (fst y)) r))).
  rewrite qz_fold_sum, !map_map. reflexivity. Qed.
Lemma combine_map2 {A B C} (f : A -> B) (g : A -> C) l : combine (map f l) (map g l) = map (fun x => (f x, g x)) l.
Proof. induction l as [|a r IH]; [reflexivity|]. cbn [map combine]. rewrite IH. reflexivity. Qed.
Lemma combine_app_eq {A B} : forall (a a' : list A) (b b' : list B), length a = length b ->
  combine (a ++ a') (b ++ b') = combine a b ++ combine a' b'.
Proof. induction a as [|x a IH]; intros a' [|y b] b' H; cbn [length] in H; try discriminate; [reflexivity|].
  cbn [app combine]. rewrite IH by lia. reflexivity. Qed.
Lemma combine_rev {A B} : forall (a : list A) (b : list B), length a = length b -> combine (List.rev a) (List.rev b) = List.rev (combine a b).
Proof. induction a as [|x a IH]; intros [|y b] H; cbn [length] in H; try discriminate; [reflexivity|]. cbn [List.rev combine].
  rewrite <- IH by lia. rewrite combine_app_eq by (rewrite !rev_length; lia). reflexivity. Qed.
Lemma ssm_pairs off pm h zs :
  List.rev (combine (ssm_stages_of off pm h zs) (ssm_levels_of h zs)) = map (fun z => (ssm_stage off pm z, z_lv z)) (zcst h 0 zs).
Proof. unfold ssm_stages_of, ssm_levels_of. rewrite combine_rev by (rewrite !map_length; reflexivity).
  rewrite rev_involutive. apply combine_map2. Qed.
Lemma ssm_h_sum off pm h zs : zs <> [] ->
  qsum (map SSM.sg_h (ssm_stages_of off pm h zs)) == h (sinkn (map sidx (map zsim_stage zs))).
Proof. intro Hne. unfold ssm_stages_of. rewrite <- map_rev, map_map.
  assert (A : forall l : list zstage, qsum (map (fun z => SSM.sg_h (ssm_stage off pm z)) (List.rev l)) == qsum (map (fun z => fst (fst z)) l)).
  { induction l as [|a r IH]; [reflexivity|]. cbn [List.rev]. rewrite map_app, qsum_app, IH. cbn [map qsum ssm_stage SSM.sg_h]. lra. }
  rewrite A.
  assert (Bq : forall zs' hprev, qsum (map (fun z : zstage => fst (fst z)) (zcst h hprev zs')) == qsum (map c_he (cst h hprev (map zsim_stage zs')))).
  { induction zs' as [|x r IH]; intro hprev; [reflexivity|]. cbn [zcst map cst qsum]. rewrite IH. reflexivity. }
  rewrite Bq, (cst_he_sum h (map zsim_stage zs) 0) by (destruct zs; [congruence|discriminate]). unfold sinkn. lra. Qed.

Section ExpectZ.
Variables (h p : N -> Q) (order : list N) (zs : list zsim).
Notation stages := (map zsim_stage zs).
Hypothesis Hne : zs <> [].
Hypothesis ND : NoDup (map sidx stages).
Hypothesis Hperm : Permutation order (map sidx stages).
Hypothesis Hl : Forall (fun x : zsim => (0 <= snd (fst x))%Z) zs.
Hypothesis Hp0 : Forall (fun n => p n == 0) (removelast (map sidx stages)).
Variables (off : nat) (pm : list Q).
Hypothesis H1 : qsum pm == 1.
Hypothesis Hbig : (Z.of_nat (off + length pm) <= 10 ^ 100)%Z.
Notation snk := (sinkn (map sidx stages)).
Notation sst := (ssm_stages_of off pm h zs).
Notation slv := (ssm_levels_of h zs).

Lemma stages_ne : stages <> [].
Proof. destruct zs; [congruence|discriminate]. Qed.
Lemma stages_nonneg : Forall (fun x => 0 <= slev x) stages.
Proof. rewrite Forall_map. eapply Forall_impl; [|exact Hl]. intros x Hx. unfold slev, zsim_stage. cbn [fst snd].
  change 0 with (inject_Z 0). rewrite <- Zle_Qle. exact Hx. Qed.

(* E[simulated cost of period t] = the exact expected cost of the echelon level vector as Alg/SSM.v [topdown] enumerates it *)
Theorem serial_expected_cost_topdown t T : (list_sum (map sslt stages) <= t)%nat -> (t < T)%nat ->
  expect_list T off pm (serial_period_cost h p order stages t)
  == SSM.topdown (p snk) (qsum (map SSM.sg_h sst)) (List.rev (combine sst slv)) None.
Proof. intros HL Ht.
  rewrite (serial_expected_cost_nested h p order stages stages_ne ND Hperm stages_nonneg Hp0 off pm H1 Hbig
             (p snk + qsum (map SSM.sg_h sst)) t T ltac:(rewrite (ssm_h_sum off pm h zs Hne); reflexivity) HL Ht).
  rewrite ssm_pairs. apply (hcost_topdown off pm (p snk) (qsum (map SSM.sg_h sst)) _ _ (zcst_rel h zs 0) None None I). Qed.

(* ... = the cost stockpyl.ssm_serial reports for these echelon levels (model Alg/SSM.v), on an exactly represented instance *)
Theorem serial_expected_cost_ssm xlo xnum xext mu t T :
  SSM.exact_instance xlo xext mu sst -> Forall (fun l => (xlo <= l <= SSM.xhi xlo xnum)%Z) slv ->
  (list_sum (map sslt stages) <= t)%nat -> (t < T)%nat ->
  expect_list T off pm (serial_period_cost h p order stages t)
  == SSM.ssm_cost xlo xnum xext (p snk) mu (SSM.with_levels sst slv).
Proof. intros Hex Hgrid HL Ht. rewrite (serial_expected_cost_topdown t T HL Ht). symmetry.
  apply SSMCost_proofs.ssm_cost_is_long_run_cost; [exact Hex| | |exact Hgrid].
  - unfold ssm_stages_of, ssm_levels_of. rewrite !rev_length, !map_length. reflexivity.
  - unfold ssm_stages_of. intro E. apply (f_equal (@length _)) in E. rewrite rev_length, map_length in E.
    destruct zs as [|x r]; [congruence|]. cbn [zcst length] in E. discriminate. Qed.
End ExpectZ.

(* ---- the SSM instance built from the one-period pmf is exactly represented (Alg/SSM.v [exact_instance]) ---- *)
Lemma qnat_mul a b : qnat (a * b) == qnat a * qnat b.
Proof. unfold qnat. rewrite Nat2Z.inj_mul, inject_Z_mult. reflexivity. Qed.
Lemma zcst_Forall_L (P : nat -> Prop) h : forall zs hprev, Forall (fun x : zsim => P (snd x)) zs -> Forall (fun z : zstage => P (snd z)) (zcst h hprev zs).
Proof. induction zs as [|x r IH]; intros hprev H; cbn [zcst]; constructor; inversion H; subst; [assumption|apply IH; assumption]. Qed.
Theorem ssm_instance_exact off pm h zs xlo xext : (xlo <= 0)%Z -> nonneg_list pm -> qsum pm == 1 ->
  Forall (fun x : zsim => (snd x * off + length (conv_pow (snd x) pm) <= S xext)%nat) zs ->
  SSM.exact_instance xlo xext (Gen.pmf_mean (qnat off) pm) (ssm_stages_of off pm h zs).
Proof. intros Hx Hnn H1 Hsup. split; [exact Hx|]. unfold ssm_stages_of. apply Forall_rev. rewrite Forall_map.
  eapply Forall_impl; [|apply (zcst_Forall_L (fun L => (L * off + length (conv_pow L pm) <= S xext)%nat) h zs 0 Hsup)].
  intros z Hz. cbv beta in Hz. set (L := snd z) in *.
  change (SSM.sg_d (ssm_stage off pm z)) with (map Z.of_nat (seq (L * off) (length (conv_pow L pm)))).
  change (SSM.sg_f (ssm_stage off pm z)) with (conv_pow L pm).
  change (SSM.sg_L (ssm_stage off pm z)) with (qnat L).
  split; [rewrite map_length, seq_length; reflexivity|].
  split. { rewrite Forall_map. apply Forall_forall. intros i Hi. apply in_seq in Hi. lia. }
  split; [apply conv_pow_nonneg; exact Hnn|].
  split; [exact (proj1 (ltd_moments L 0 pm H1))|].
  unfold SSM.pmf_of, SSM.pmf_mean.
  change (SSM.sg_d (ssm_stage off pm z)) with (map Z.of_nat (seq (L * off) (length (conv_pow L pm)))).
  change (SSM.sg_f (ssm_stage off pm z)) with (conv_pow L pm).
  change (combine (map Z.of_nat (seq (L * off) (length (conv_pow L pm)))) (conv_pow L pm)) with (pmf_of_list (L * off) (conv_pow L pm)).
  rewrite (qsum_pmf_of_list SSM.qz), wsum_shift_k.
  destruct (ltd_moments L (qnat off) pm H1) as (_ & Hm & _). unfold Gen.pmf_mean in Hm |- *.
  rewrite (Qmult_comm _ (qnat L)), <- Hm. apply wsum_ext. intro j.
  change (SSM.qz (Z.of_nat (L * off + j))) with (qnat (L * off + j)). rewrite qnat_add, qnat_mul. reflexivity. Qed.

Print Assumptions serial_period_cost_pathwise.
Print Assumptions serial_expected_cost_nested.
Print Assumptions serial_expected_cost_topdown.
Print Assumptions serial_expected_cost_ssm.
Print Assumptions ssm_instance_exact.
