(* C15 / C07 bridge, serial systems: the EXPECTED period cost of the simulated serial system (local base-stock levels) and the
   SSM expected cost of the corresponding echelon level vector.  Executable definitions only (proofs: SerialCost_proofs.v,
   SerialPath_proofs.v, SerialLaw_proofs.v, SerialExp_proofs.v).

   Conventions.  Chains are listed upstream -> downstream as in Sim/Serial.v ([stages] : list (index, LOCAL level, shipment
   lead time)); lists called [rst] are the same chain reversed (downstream first, the most upstream stage last).
   A "cost stage" is (echelon holding rate, ECHELON base-stock level, lead time).
   Demand: i.i.d., P(D = off + i) = nth i pm 0  (the representation of Sim/NVExpect.v);  [expect_sum L off pm g] is
   E[g(D_1+..+D_L)] and [expect_list T off pm G] is E[G [D_0; ..; D_{T-1}]] (iterated finite sums, defined there). *)
From SV Require Import Base.Qx Alg.Gen Sim.Model Sim.Serial Sim.CS Sim.NVExpect.
From SV Require Alg.SSM.

(* ---------- the simulator side ---------- *)
(* total cost of one period: what sim.simulation adds up for that period (sum over the nodes of total_cost_incurred) *)
Definition net_period_cost (NW : net) (e : st) : Q := qsumf (fun n => c_tc (node_costs NW e n)) (nodes NW).

(* demand sequences of naturals as simulator inputs (no disruptions; every node sees the value, only the sink uses it) *)
Definition ser_inputs (ds : list nat) : list ((N -> bool) * (N -> Q)) :=
  map (fun k => (fun _ : N => false, fun _ : N => qnat k)) ds.
Definition dq (ds : list nat) (t : nat) : Q := qnat (nth t ds 0%nat).
(* the simulator model's total cost of period t as a function of the demand sequence *)
Definition serial_period_cost (h p : N -> Q) (order : list N) (stages : list stage) (t : nat) (ds : list nat) : Q :=
  net_period_cost (NWloc h p order stages) (nth t (run (NWloc h p order stages) (ser_inputs ds)) empty_st).

(* ---------- step 1: the local -> echelon rewriting of the period cost ---------- *)
(* sum over the chain of (h_n - h_{supplier of n}) * E n;  hprev = local holding rate of the supplier (0 above the head) *)
Fixpoint ech_cost (h E : N -> Q) (hprev : Q) (ch : list N) : Q :=
  match ch with [] => 0 | n :: r => (h n - hprev) * E n + ech_cost h E (h n) r end.
(* stockout cost charged by the simulator at the stages that are NOT the sink (their backorders toward the next stage) *)
Fixpoint interior_stockout (p IL : N -> Q) (ch : list N) : Q :=
  match ch with
  | [] => 0
  | n :: r => match r with [] => 0 | _ :: _ => p n * negp (IL n) + interior_stockout p IL r end
  end.
Definition sinkn (ch : list N) : N := last ch 0%N.

(* ---------- the pure Clark-Scarf echelon recursion ---------- *)
(* echelon inventory level at the START of period t (the echelon base-stock level at t = 0) of the first stage of [rst],
   rst = (echelon level, lead time) of that stage, of its supplier, ..., of the head *)
Fixpoint eils (d : nat -> Q) (rst : list (Q * nat)) (t : nat) : Q :=
  match rst with
  | [] => 0
  | (Se, L) :: up =>
      match t with
      | O => Se
      | S u => (match up with [] => Se | _ :: _ => qmin Se (eils d up (S u - L)) end) - dwin d L u
      end
  end.

(* cost stages *)
Definition cstage := (Q * Q * nat)%type.
Definition c_he (x : cstage) : Q := fst (fst x).
Definition c_Se (x : cstage) : Q := snd (fst x).
Definition c_L (x : cstage) : nat := snd x.
Definition strip (x : cstage) : Q * nat := (c_Se x, c_L x).
(* the cost stages of a chain of simulator stages: echelon holding rate h_n - h_supplier, echelon level = suffix sum *)
Fixpoint cst (h : N -> Q) (hprev : Q) (stages : list stage) : list cstage :=
  match stages with
  | [] => []
  | x :: r => (h (sidx x) - hprev, slev x + qsum (map slev r), sslt x) :: cst h (h (sidx x)) r
  end.
Definition leadsum (rst : list (Q * nat)) : nat := list_sum (map snd rst).

(* sum_j h^e_j * IL^e_j(start of period t) over the stages of rst *)
Fixpoint hsum (d : nat -> Q) (rst : list cstage) (t : nat) : Q :=
  match rst with
  | [] => 0
  | x :: up => c_he x * eils d (map strip (x :: up)) t + hsum d up t
  end.
(* the period-t cost in echelon form, a function of the demand history only; pH = p + sum of the echelon holding rates *)
Definition pure_cost (pH : Q) (d : nat -> Q) (rst : list cstage) (t : nat) : Q :=
  hsum d rst (S t) + pH * negp (eils d (map strip rst) (S t)).

(* ---------- the laws ---------- *)
(* E[phi(IL^e of the first stage of rst)] in steady state: nested sums over INDEPENDENT lead-time demands *)
Fixpoint elaw (off : nat) (pm : list Q) (rst : list (Q * nat)) (phi : Q -> Q) : Q :=
  match rst with
  | [] => phi 0
  | (Se, L) :: up =>
      match up with
      | [] => expect_sum L off pm (fun w => phi (Se - qnat w))
      | _ :: _ => elaw off pm up (fun x => expect_sum L off pm (fun w => phi (qmin Se x - qnat w)))
      end
  end.
Fixpoint esum (off : nat) (pm : list Q) (rst : list cstage) : Q :=
  match rst with
  | [] => 0
  | x :: up => c_he x * elaw off pm (map strip (x :: up)) (fun y => y) + esum off pm up
  end.
Definition ecost (off : nat) (pm : list Q) (pH : Q) (rst : list cstage) : Q :=
  esum off pm rst + pH * elaw off pm (map strip rst) negp.

(* the same nested sums taken from the head downwards: the exact expected cost of an echelon level vector as the
   top-down enumeration writes it (Alg/SSM.v [topdown], here over Q and with expect_sum for the lead-time demands);
   st = cost stages upstream -> downstream, up = echelon inventory level of the stage above *)
Fixpoint hcost (off : nat) (pm : list Q) (pH : Q) (st : list cstage) (up : option Q) : Q :=
  match st with
  | [] => match up with Some x => pH * negp x | None => 0 end
  | x :: r =>
      let ip := match up with Some y => qmin (c_Se x) y | None => c_Se x end in
      expect_sum (c_L x) off pm (fun w => c_he x * (ip - qnat w) + hcost off pm pH r (Some (ip - qnat w)))
  end.
Fixpoint hlaw (off : nat) (pm : list Q) (st : list (Q * nat)) (up : option Q) (phi : Q -> Q) : Q :=
  match st with
  | [] => match up with Some x => phi x | None => phi 0 end
  | (Se, L) :: r =>
      let ip := match up with Some y => qmin Se y | None => Se end in
      expect_sum L off pm (fun w => hlaw off pm r (Some (ip - qnat w)) phi)
  end.
Fixpoint hhold (off : nat) (pm : list Q) (st : list cstage) (up : option Q) : Q :=
  match st with
  | [] => 0
  | x :: r =>
      let ip := match up with Some y => qmin (c_Se x) y | None => c_Se x end in
      expect_sum (c_L x) off pm (fun w => c_he x * (ip - qnat w) + hhold off pm r (Some (ip - qnat w)))
  end.

(* ---------- the SSM side (Alg/SSM.v) ---------- *)
(* integer cost stages (echelon holding rate, integer echelon level, lead time), and the stage record of Alg/SSM.v whose
   lead-time-demand table is the L-fold convolution of the one-period pmf *)
Definition zstage := (Q * Z * nat)%type.
Definition ssm_stage (off : nat) (pm : list Q) (x : zstage) : SSM.stage :=
  let L := snd x in
  {| SSM.sg_h := fst (fst x); SSM.sg_L := qnat L;
     SSM.sg_d := map Z.of_nat (seq (L * off) (length (conv_pow L pm))); SSM.sg_f := conv_pow L pm; SSM.sg_S := None |}.
Definition z_lv (x : zstage) : Z := snd (fst x).
Definition zq (x : zstage) : cstage := (fst (fst x), inject_Z (z_lv x), snd x).
(* integer simulator stages (index, integer local level, lead time) *)
Definition zsim := (N * Z * nat)%type.
Definition zsim_stage (x : zsim) : stage := (fst (fst x), inject_Z (snd (fst x)), snd x).
Fixpoint zcst (h : N -> Q) (hprev : Q) (zs : list zsim) : list zstage :=
  match zs with
  | [] => []
  | x :: r => (h (fst (fst x)) - hprev, (snd (fst x) + fold_right Z.add 0 (map (fun y => snd (fst y)) r))%Z, snd x)
              :: zcst h (h (fst (fst x))) r
  end.
(* the SSM instance, in the internal order of ssm_serial (1 = downstream .. N = upstream), and its echelon levels *)
Definition ssm_stages_of (off : nat) (pm : list Q) (h : N -> Q) (zs : list zsim) : list SSM.stage :=
  List.rev (map (ssm_stage off pm) (zcst h 0 zs)).
Definition ssm_levels_of (h : N -> Q) (zs : list zsim) : list Z := List.rev (map z_lv (zcst h 0 zs)).
