(* The nested sums of SerialLaw_proofs.v (taken from the sink upwards, [ecost]) are the top-down enumeration of the SSM
   expected cost (taken from the head downwards): [ecost] == [hcost] (over Q, expect_sum) == [SSM.topdown] of Alg/SSM.v on
   the stage records whose lead-time-demand tables are the L-fold convolutions of the one-period pmf. *)
From Coq Require Import Morphisms.
From SV Require Import Base.Qx Alg.Gen Alg.Gen_proofs Alg.NVDiscrete_proofs Sim.Model Sim.Serial Sim.CS Sim.CS_math Sim.NVExpect.
From SV Require Alg.SSM Alg.SSM_proofs.
From SV Require Import Sim.SerialExp Sim.SerialLaw_proofs.
Open Scope Q_scope.

Section Nested.
Variables (off : nat) (pm : list Q).

Lemma negp_0 : negp 0 == 0.
Proof. unfold negp. qcases; lra. Qed.

(* (a) cost = holding part + (p + H) * backorder part *)
Lemma hcost_split pH : forall st up, hcost off pm pH st up == hhold off pm st up + pH * hlaw off pm (map strip st) up negp.
Proof. induction st as [|x r IH]; intros up.
  - cbn [hcost hhold hlaw map]. destruct up as [y|]; [lra|]. rewrite negp_0. lra.
  - cbn [hcost hhold map]. unfold strip at 1. cbn [hlaw].
    set (ip := match up with Some y => qmin (c_Se x) y | None => c_Se x end).
    rewrite <- expect_sum_scale, <- expect_sum_add. apply expect_sum_ext. intro w. rewrite IH. lra. Qed.

(* (b) appending a stage below = composing the continuation *)
Lemma hlaw_snoc_some Se L phi : forall st y,
  hlaw off pm (st ++ [(Se, L)]) (Some y) phi
  == hlaw off pm st (Some y) (fun x => expect_sum L off pm (fun w => phi (qmin Se x - qnat w))).
Proof. induction st as [|[Sa La] st' IH]; intros y; cbn [app hlaw]; [reflexivity|].
  apply expect_sum_ext. intro w. apply IH. Qed.
Lemma hlaw_snoc_none Se L phi st : st <> [] ->
  hlaw off pm (st ++ [(Se, L)]) None phi
  == hlaw off pm st None (fun x => expect_sum L off pm (fun w => phi (qmin Se x - qnat w))).
Proof. destruct st as [|[Sa La] st']; [congruence|]. intros _. cbn [app hlaw].
  apply expect_sum_ext. intro w. apply hlaw_snoc_some. Qed.

(* (c) the law from the sink upwards = the law from the head downwards *)
Lemma elaw_hlaw : forall rst phi, rst <> [] -> elaw off pm rst phi == hlaw off pm (List.rev rst) None phi.
Proof. induction rst as [|[Se L] up IH]; intros phi Hne; [congruence|].
  cbn [elaw List.rev]. destruct up as [|y up'].
  - cbn [List.rev app hlaw]. reflexivity.
  - set (up := y :: up') in *. assert (Hup : up <> []) by (unfold up; discriminate).
    rewrite (IH _ Hup). symmetry. apply hlaw_snoc_none.
    intro E. apply (f_equal (@length _)) in E. rewrite rev_length in E. unfold up in E. discriminate. Qed.

(* (d) the holding part *)
Lemma hhold_snoc x : forall st up,
  hhold off pm (st ++ [x]) up == hhold off pm st up + c_he x * hlaw off pm (map strip (st ++ [x])) up (fun y => y).
Proof. induction st as [|a st' IH]; intros up.
  - cbn [app hhold map]. unfold strip. cbn [hlaw].
    rewrite <- expect_sum_scale. rewrite Qplus_0_l. apply expect_sum_ext. intro w. lra.
  - cbn [app hhold map]. unfold strip at 1. cbn [hlaw].
    set (ip := match up with Some y => qmin (c_Se a) y | None => c_Se a end).
    rewrite <- expect_sum_scale, <- expect_sum_add. apply expect_sum_ext. intro w. rewrite IH. lra. Qed.

Lemma hhold_esum : forall rst, hhold off pm (List.rev rst) None == esum off pm rst.
Proof. induction rst as [|x up IH]; [reflexivity|].
  cbn [List.rev]. rewrite hhold_snoc, IH.
  change (esum off pm (x :: up)) with (c_he x * elaw off pm (map strip (x :: up)) (fun y => y) + esum off pm up).
  rewrite (elaw_hlaw (map strip (x :: up)) (fun y => y)) by discriminate.
  rewrite <- map_rev. cbn [List.rev]. lra. Qed.

Theorem ecost_hcost pH rst : rst <> [] -> ecost off pm pH rst == hcost off pm pH (List.rev rst) None.
Proof. intro Hne. unfold ecost. rewrite hcost_split, hhold_esum.
  rewrite (elaw_hlaw (map strip rst) negp) by (destruct rst; [congruence|discriminate]).
  rewrite <- map_rev. reflexivity. Qed.
End Nested.

(* ---- hcost (over Q, iterated expectation) = topdown of Alg/SSM.v (over Z, tables = convolutions) ---- *)
Lemma qz_min a b : SSM.qz (Z.min a b) == qmin (SSM.qz a) (SSM.qz b).
Proof. unfold SSM.qz. destruct (Z.min_spec a b) as [[H E]|[H E]]; rewrite E.
  - apply Z.lt_le_incl in H. rewrite Zle_Qle in H. qcases; lra.
  - rewrite Zle_Qle in H. qcases; lra. Qed.

Definition stage_rel (x : cstage) (z : zstage) : Prop :=
  c_he x == fst (fst z) /\ c_Se x == SSM.qz (z_lv z) /\ c_L x = snd z.
Definition up_rel (up : option Q) (upZ : option Z) : Prop :=
  match up, upZ with None, None => True | Some x, Some z => x == SSM.qz z | _, _ => False end.

Theorem hcost_topdown off pm p H : forall st zst, Forall2 stage_rel st zst ->
  forall up upZ, up_rel up upZ ->
  hcost off pm (p + H) st up == SSM.topdown p H (map (fun z => (ssm_stage off pm z, z_lv z)) zst) upZ.
Proof.
  induction 1 as [|x z st zst (Rh & RS & RL) _ IH]; intros up upZ Hup.
  - cbn [hcost map SSM.topdown]. destruct up as [y|], upZ as [u|]; cbn in Hup; try contradiction; [|reflexivity].
    change (qneg (SSM.qz u)) with (negp (SSM.qz u)). rewrite Hup. reflexivity.
  - cbn [hcost map SSM.topdown]. rewrite expect_sum_conv.
    set (ipZ := match upZ with Some il => Z.min (z_lv z) il | None => z_lv z end).
    set (ip := match up with Some y => qmin (c_Se x) y | None => c_Se x end).
    assert (Hip : ip == SSM.qz ipZ).
    { unfold ip, ipZ. destruct up as [y|], upZ as [u|]; cbn in Hup; try contradiction; [|exact RS].
      rewrite qz_min, RS, Hup. reflexivity. }
    change (SSM.sg_h (ssm_stage off pm z)) with (fst (fst z)).
    change (combine (SSM.sg_d (ssm_stage off pm z)) (SSM.sg_f (ssm_stage off pm z)))
      with (pmf_of_list (snd z * off) (conv_pow (snd z) pm)).
    rewrite (qsum_pmf_of_list (fun d => fst (fst z) * SSM.qz (ipZ - d)
               + SSM.topdown p H (map (fun z0 => (ssm_stage off pm z0, z_lv z0)) zst) (Some (ipZ - d)%Z))).
    rewrite (wsum_shift_k _ (snd z * off)). rewrite RL. apply wsum_ext. intro k.
    assert (Ek : ip - qnat (snd z * off + k) == SSM.qz (ipZ - Z.of_nat (snd z * off + k))).
    { rewrite SSM_proofs.qz_sub, Hip. reflexivity. }
    rewrite (IH (Some (ip - qnat (snd z * off + k))) (Some (ipZ - Z.of_nat (snd z * off + k))%Z) Ek).
    rewrite Ek, Rh. reflexivity.
Qed.

Print Assumptions ecost_hcost.
Print Assumptions hcost_topdown.
