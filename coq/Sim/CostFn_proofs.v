(* C05 with cost functions: the cost read-out [node_costs_fn] is the specification of the property text with the node's functions
   substituted for the linear terms, it coincides with [node_costs] where no function is set, the value returned is the sum of the
   per-node per-period totals, and the components are non-negative for non-negative functions. *)
From SV Require Import Sim.Model Sim.StateLemmas Sim.Inv_base Sim.Inv_book Sim.Inv_node Sim.Policy_thms Sim.Obs Sim.CostFn.

Section P.
Variable NW : net.
Variables (hf sf : N -> option (Q -> Q)).
Notation C := (cfg NW).

(* the property text, with "rate times quantity" replaced by "function of the quantity" where the node has a function *)
Definition cost_spec_fn (e : st) (n : N) : Q * Q * Q * Q :=
  let on_hand := qmax 0 (gq e (fIL, n, Ext)) in
  let held_for_customers := qsum (map (fun c => gq e (fODI, n, c)) (customers (C n))) in
  let raw := qsum (map (fun p => hc (C p) * (gq e (fRM, n, Nd p) + gq e (fIDI, n, Nd p))) (preds (C n))) in
  let backorders := qmax 0 (- gq e (fIL, n, Ext)) in
  let in_transit := qsum (map (fun s => qsum (gl e (fSP, s, Nd n))) (succs (C n))) in
  let rate := match ith (C n) with Some r => r | None => hc (C n) end in
  ((match hf n with Some f => f (on_hand + held_for_customers) | None => hc (C n) * (on_hand + held_for_customers) end) + raw,
   match sf n with Some g => g (gq e (fIL, n, Ext)) | None => pc (C n) * backorders end,
   rate * in_transit,
   rev (C n) * qsum (map (fun c => gq e (fOS, n, c)) (customers (C n)))).

Theorem costs_fn_match_spec e n : let k := node_costs_fn NW hf sf e n in
  (c_hc k, c_sc k, c_ithc k, c_rev k) = cost_spec_fn e n /\ c_tc k = c_hc k + c_sc k + c_ithc k - c_rev k.
Proof. split; reflexivity. Qed.

Theorem costs_fn_none e n : hf n = None -> sf n = None -> node_costs_fn NW hf sf e n = node_costs NW e n.
Proof. intros H1 H2. unfold node_costs_fn, node_costs. rewrite H1, H2. reflexivity. Qed.

Theorem total_fn_is_sum recs :
  total_cost_fn NW hf sf recs = qsum (map (fun e => qsum (map (fun n => c_tc (node_costs_fn NW hf sf e n)) (nodes NW))) recs).
Proof. reflexivity. Qed.

Lemma map_ext_in' {A B} (f g : A -> B) l : (forall a, In a l -> f a = g a) -> map f l = map g l.
Proof. induction l as [|a r IH]; cbn [map]; intros H; [reflexivity|]. rewrite (H a (or_introl eq_refl)), IH; [reflexivity|]. intros; apply H; right; assumption. Qed.

Theorem total_fn_none recs : (forall n, In n (nodes NW) -> hf n = None /\ sf n = None) -> total_cost_fn NW hf sf recs = total_cost NW recs.
Proof.
  intros H. unfold total_cost_fn, total_cost. f_equal. apply map_ext_in'. intros e _. unfold qsumf. f_equal. apply map_ext_in'.
  intros n Hn. destruct (H n Hn) as [H1 H2]. rewrite costs_fn_none by assumption. reflexivity.
Qed.

(* the functions see exactly the documented arguments: the holding function the items held (>= 0 in every reachable state),
   the stockout function the signed inventory level; a function that is >= 0 there gives >= 0 cost components *)
Theorem costs_fn_nonneg e n : NN e -> 0 <= hc (C n) -> (forall p, 0 <= hc (C p)) -> 0 <= pc (C n) ->
  match ith (C n) with Some r => 0 <= r | None => True end ->
  (forall f, hf n = Some f -> forall x, 0 <= x -> 0 <= f x) -> (forall g, sf n = Some g -> forall x, 0 <= g x) ->
  let k := node_costs_fn NW hf sf e n in 0 <= c_hc k /\ 0 <= c_sc k /\ 0 <= c_ithc k.
Proof.
  intros HN Hh Hhp Hp Hi Hf Hg. cbv zeta. unfold node_costs_fn. cbn [c_hc c_sc c_ithc].
  assert (A : 0 <= qsumf (fun x => gq e (fODI, n, x)) (customers (C n))) by (apply qsumf_nonneg; intros; apply NN_q; [exact HN|reflexivity]).
  assert (B : 0 <= qsumf (fun p => hc (C p) * (gq e (fRM, n, Nd p) + gq e (fIDI, n, Nd p))) (preds (C n))).
  { apply qsumf_nonneg. intros p _. apply Qmult_le_0_compat; [apply Hhp|]. pose proof (NN_q e fRM n (Nd p) HN eq_refl). pose proof (NN_q e fIDI n (Nd p) HN eq_refl). lra. }
  assert (T : 0 <= qsumf (fun x => qsum (gl e (fSP, x, Nd n))) (succs (C n))) by (apply qsumf_nonneg; intros; apply qsum_nonneg, NN_l, HN).
  assert (Hheld : 0 <= qmax 0 (gq e (fIL, n, Ext)) + qsumf (fun x => gq e (fODI, n, x)) (customers (C n))) by (qcases; lra).
  repeat split.
  - destruct (hf n) as [f|] eqn:E.
    + pose proof (Hf f eq_refl _ Hheld). lra.
    + assert (0 <= hc (C n) * (qmax 0 (gq e (fIL, n, Ext)) + qsumf (fun x => gq e (fODI, n, x)) (customers (C n)))) by (apply Qmult_le_0_compat; assumption). lra.
  - destruct (sf n) as [g|] eqn:E.
    + apply (Hg g eq_refl).
    + apply Qmult_le_0_compat; [exact Hp|qcases; lra].
  - apply Qmult_le_0_compat; [destruct (ith (C n)); assumption|exact T].
Qed.
End P.

(* the generated families are non-negative where the theorem needs it *)
Lemma quad_h_nonneg a b x : 0 <= a -> 0 <= b -> 0 <= x -> 0 <= quad_h a b x.
Proof. intros. unfold quad_h. nra. Qed.
Lemma quad_p_nonneg a b il : 0 <= a -> 0 <= b -> 0 <= quad_p a b il.
Proof. intros. unfold quad_p. cbv zeta. assert (0 <= qmax 0 (- il)) by (qcases; lra). nra. Qed.
(* with a linear "function" the function read-out is the rate read-out: f(x) = r x, g(IL) = r IL^- *)
Theorem costs_fn_linear NW hf sf e n : hf n = Some (quad_h (hc (cfg NW n)) 0) -> sf n = Some (quad_p (pc (cfg NW n)) 0) ->
  let k := node_costs_fn NW hf sf e n in let k0 := node_costs NW e n in
  c_hc k == c_hc k0 /\ c_sc k == c_sc k0 /\ c_ithc k = c_ithc k0 /\ c_rev k = c_rev k0 /\ c_tc k == c_tc k0.
Proof.
  intros H1 H2. cbv zeta. unfold node_costs_fn, node_costs. rewrite H1, H2. cbn [c_hc c_sc c_ithc c_rev c_tc]. unfold quad_h, quad_p. cbv zeta.
  repeat split; try reflexivity; ring.
Qed.
