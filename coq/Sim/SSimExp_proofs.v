(* C15 / C13 bridge, part 3: EXPECTATION. For i.i.d. demand with a finite pmf (P(D = i) = nth i pm 0, the pmf list of ss.py), the
   expectation over the product distribution of the whole demand sequence of the simulator model's cost of period t with K
   (single (s,S) stage, shipment lead time 1 = the convention of ss.py, start at x0 in (s, S]) is  ecost ... (unitv n (S - x0)) t
   of Alg/SSErgo.v, hence (C13_long_run_average) the Cesaro average of the expected simulated period costs is within
   ergB / T of the cost reported by s_s_cost_discrete. *)
From SV Require Import Alg.SS_proofs Alg.SSErgo_proofs Alg.Gen_proofs.
From SV Require Import Sim.SSim Sim.SSim_proofs Sim.SSimChain_proofs.

(* ---------- 1. the simulated period cost as a function of (offset before the period, demand of the period) ---------- *)
Lemma Forall2_nth2 {A B} (R : A -> B -> Prop) l1 l2 d1 d2 : Forall2 R l1 l2 ->
  forall t, (t < length l2)%nat -> R (nth t l1 d1) (nth t l2 d2).
Proof. intros F t Ht. apply Forall2_nth_R; [exact F|]. rewrite (Forall2_len _ _ _ F). exact Ht. Qed.

Lemma sim_dl_ok (lo S : Z) dss (ds : list nat) : length dss = length ds ->
  Forall (fun d => (Z.of_nat d + (S - lo) <= 10 ^ 100)%Z) ds ->
  let dl := combine dss (map qnat ds) in
  map snd dl = map qnat ds /\
  Forall (fun x : (N -> bool) * Q => 0 <= snd x /\ snd x + (inject_Z S - inject_Z lo) <= BIG) dl.
Proof. intros Hlen Hb dl. split; [apply map_snd_combine; rewrite map_length; exact Hlen|].
  apply Forall_forall. intros [f q] Hin. cbn [snd]. apply in_combine_r in Hin. apply in_map_iff in Hin.
  destruct Hin as (d & <- & Hd). rewrite Forall_forall in Hb. specialize (Hb d Hd).
  split; [apply qnat_nonneg|]. unfold BIG, qnat. rewrite <- inj_sub_q, <- inject_Z_plus, <- Zle_Qle. exact Hb. Qed.

Section PathCost.
Variables (s S x0 : Z) (h p K : Q).
Hypothesis s_lt_S : (s < S)%Z.
Hypothesis x0_range : (s < x0 <= S)%Z.
Let n := Z.to_nat (S - s).
Let i0 := Z.to_nat (S - x0).

Lemma start_offset : (i0 < n)%nat /\ inject_Z x0 + 0 == inject_Z S - qnat i0.
Proof. split; [unfold i0, n; lia|]. unfold qnat, i0. rewrite Z2Nat.id by lia. rewrite inj_sub_q. lra. Qed.

(* lead time 1: cost of period t = h (S - i - d)^+ + p (d - (S - i))^+ + K [i + d >= n], i = offset reached by the first t demands *)
Theorem ss_period_cost_L1 dss t (ds : list nat) : length dss = length ds -> (t < length ds)%nat ->
  Forall (fun d => (Z.of_nat d + (S - s) <= 10 ^ 100)%Z) ds ->
  ss_period_cost s S h p K 1 x0 dss t ds == pcost h p K S n (off_path n i0 (firstn t ds)) (nth t ds 0%nat).
Proof. intros Hlen Ht Hb. unfold ss_period_cost, sim_inputs.
  destruct (sim_dl_ok s S dss ds Hlen Hb) as [Hsnd Hdl]. cbv zeta in Hsnd, Hdl. set (dl := combine dss (map qnat ds)) in *.
  assert (A1 : inject_Z s < inject_Z S) by (rewrite <- Zlt_Qlt; exact s_lt_S).
  assert (A2 : inject_Z s <= inject_Z x0) by (rewrite <- Zle_Qle; lia).
  pose proof (ss_stage_pathwise (inject_Z s) (inject_Z S) h p 1 (inject_Z x0) (inject_Z s) A1 ltac:(lra) A2 K dl Hdl) as F1.
  rewrite Hsnd in F1. cbn [repeat] in F1.
  destruct start_offset as [Hi0 Hy0].
  pose proof (ref_run_L1 s S s_lt_S ds (inject_Z x0) 0 i0 Hi0 Hy0) as F2. fold n in F2.
  assert (Ht2 : (t < length (off_pairs n i0 ds))%nat) by (rewrite off_pairs_length; exact Ht).
  pose proof (Forall2_nth2 _ _ _ (0, [], 0) (0%nat, 0%nat) F2 t Ht2) as R2.
  assert (Ht1 : (t < length (ref_run (inject_Z s) (inject_Z S) (inject_Z x0) [0%Q] (map qnat ds)))%nat) by (rewrite (Forall2_len _ _ _ F2); exact Ht2).
  pose proof (Forall2_nth2 _ _ _ empty_st (0, [], 0) F1 t Ht1) as R1.
  rewrite off_pairs_nth in R2 by exact Ht.
  destruct (nth t (ref_run (inject_Z s) (inject_Z S) (inject_Z x0) [0] (map qnat ds)) (0, [], 0)) as [[il w] q].
  unfold rec_ok in R1. destruct R1 as (_ & _ & _ & _ & Rc). destruct R2 as [Ril Rq]. cbn [fst snd] in Ril, Rq.
  rewrite Rc, Rq, Ril. unfold pcost, n.
  apply Qplus_comp; [apply Qplus_comp; [reflexivity | apply Qmult_comp; [reflexivity | apply qmax_proper; [reflexivity | ring]]] | ].
  match goal with |- context [Nat.ltb ?a ?b] => destruct (Nat.ltb a b) end; cbn [negb]; reflexivity. Qed.

(* lead time 0: the cost is charged on the position AFTER ordering *)
Theorem ss_period_cost_L0 dss t (ds : list nat) : length dss = length ds -> (t < length ds)%nat ->
  Forall (fun d => (Z.of_nat d + (S - s) <= 10 ^ 100)%Z) ds ->
  ss_period_cost s S h p K 0 x0 dss t ds == pcost0 h p K S n (off_path n i0 (firstn t ds)) (nth t ds 0%nat).
Proof. intros Hlen Ht Hb. unfold ss_period_cost, sim_inputs.
  destruct (sim_dl_ok s S dss ds Hlen Hb) as [Hsnd Hdl]. cbv zeta in Hsnd, Hdl. set (dl := combine dss (map qnat ds)) in *.
  assert (A1 : inject_Z s < inject_Z S) by (rewrite <- Zlt_Qlt; exact s_lt_S).
  assert (A2 : inject_Z s <= inject_Z x0) by (rewrite <- Zle_Qle; lia).
  pose proof (ss_stage_pathwise (inject_Z s) (inject_Z S) h p 0 (inject_Z x0) (inject_Z s) A1 ltac:(lra) A2 K dl Hdl) as F1.
  rewrite Hsnd in F1. cbn [repeat] in F1.
  destruct start_offset as [Hi0 Hy0].
  assert (Hy0' : inject_Z x0 == inject_Z S - qnat i0) by lra.
  pose proof (ref_run_L0 s S s_lt_S ds (inject_Z x0) i0 Hi0 Hy0') as F2. fold n in F2.
  assert (Ht2 : (t < length (off_pairs n i0 ds))%nat) by (rewrite off_pairs_length; exact Ht).
  pose proof (Forall2_nth2 _ _ _ (0, [], 0) (0%nat, 0%nat) F2 t Ht2) as R2.
  assert (Ht1 : (t < length (ref_run (inject_Z s) (inject_Z S) (inject_Z x0) [] (map qnat ds)))%nat) by (rewrite (Forall2_len _ _ _ F2); exact Ht2).
  pose proof (Forall2_nth2 _ _ _ empty_st (0, [], 0) F1 t Ht1) as R1.
  rewrite off_pairs_nth in R2 by exact Ht.
  destruct (nth t (ref_run (inject_Z s) (inject_Z S) (inject_Z x0) [] (map qnat ds)) (0, [], 0)) as [[il w] q].
  unfold rec_ok in R1. destruct R1 as (_ & _ & _ & _ & Rc). destruct R2 as [Ril Rq]. cbn [fst snd] in Ril, Rq.
  rewrite Rc, Rq, Ril. unfold pcost0, n.
  apply Qplus_comp; [apply Qplus_comp; [reflexivity | apply Qmult_comp; [reflexivity | apply qmax_proper; [reflexivity | ring]]] | ].
  match goal with |- context [Nat.ltb ?a ?b] => destruct (Nat.ltb a b) end; cbn [negb]; reflexivity. Qed.
End PathCost.

(* ---------- 2. Markov property: expectation along the offset path = iterated transition operator ---------- *)
Section Markov.
Variable pmf : list Q.
Hypothesis p_nonneg : forall l, 0 <= pf pmf l.
Hypothesis p_sum1 : qsum pmf == 1.
Hypothesis p0_lt1 : pf pmf 0 < 1.
Variable n : nat.
Hypothesis n_pos : (1 <= n)%nat.
Notation P := (trans pmf n).

Lemma off_lt' i d : (off_step n i d < n)%nat.
Proof. unfold off_step. destruct (Nat.ltb_spec (i + d) n); [assumption | lia]. Qed.

Lemma Pf_ext (f g : nat -> Q) : (forall i, (i < n)%nat -> f i == g i) -> forall i, Pf n P f i == Pf n P g i.
Proof. intros H i. unfold Pf. apply qsum_range_ext. intros j Hj. rewrite (H j) by lia. reflexivity. Qed.
Lemma Piter_ext t : forall (f g : nat -> Q), (forall i, (i < n)%nat -> f i == g i) -> forall i, (i < n)%nat -> Piter n P t f i == Piter n P t g i.
Proof. induction t as [|t IH]; intros f g H i Hi; cbn [Piter]; [apply H; exact Hi|]. apply Pf_ext. intros j Hj. apply IH; assumption. Qed.
Lemma Piter_comm t : forall (f : nat -> Q) i, (i < n)%nat -> Piter n P t (Pf n P f) i == Pf n P (Piter n P t f) i.
Proof. induction t as [|t IH]; intros f i Hi; cbn [Piter]; [reflexivity|]. apply Pf_ext. intros j Hj. apply IH. exact Hj. Qed.

(* E[phi(offset after the t demands)] = (P^t phi)(i0) *)
Theorem expect_off_path (phi : nat -> Q) : forall t i0, (i0 < n)%nat ->
  expect_list t 0 pmf (fun ds => phi (off_path n i0 ds)) == Piter n P t phi i0.
Proof. induction t as [|t IH]; intros i0 Hi; cbn [expect_list Piter]; [reflexivity|].
  rewrite <- (off_step_law pmf n (Piter n P t phi) i0 Hi).
  apply wsum_ext. intro d. cbn [Nat.add]. rewrite <- (IH (off_step n i0 d) (off_lt' i0 d)).
  apply expect_list_ext_in. intros ds _ _. reflexivity. Qed.

(* forward form: mu P^t . phi = mu . (P^t phi) *)
Lemma dist_Piter : forall t (phi : nat -> Q) mu, dotn n (distf n P mu t) phi == dotn n mu (Piter n P t phi).
Proof. induction t as [|t IH]; intros phi mu; cbn [distf Piter]; [reflexivity|].
  rewrite dot_step. rewrite (IH (Pf n P phi) mu). apply dotn_ext; [intros; reflexivity|]. intros i Hi. cbn [Piter]. apply Piter_comm. exact Hi. Qed.

Lemma dot_unit (g : nat -> Q) i0 : (i0 < n)%nat -> dotn n (vec (unitv n i0)) g == g i0.
Proof. intro Hi. unfold dotn, vec.
  rewrite (qsum_range_ext _ (fun j => (if Nat.eqb j i0 then 1 else 0) * g j)).
  2:{ intros j Hj. unfold unitv. rewrite nth_map_seq by lia. reflexivity. }
  replace n with (i0 + S (n - S i0))%nat by lia. rewrite qsum_range_split, qsum_range_first. cbn [Nat.add]. rewrite Nat.eqb_refl.
  rewrite !qsum_range_zero; [lra| |]; intros k Hk; replace (Nat.eqb k i0) with false by (symmetry; apply Nat.eqb_neq; lia); lra. Qed.

Variable G : Z -> Q.
Variable K : Q.
(* the expected chain cost of period t from the start offset i0, as an expectation over demand sequences *)
Theorem ecost_as_expectation S t i0 : (i0 < n)%nat ->
  ecost pmf G K n S (unitv n i0) t == expect_list t 0 pmf (fun ds => cstate pmf G K n S (off_path n i0 ds)).
Proof. intro Hi. rewrite ecost_dotn, dist_Piter, dot_unit by exact Hi. rewrite expect_off_path by exact Hi. reflexivity. Qed.
End Markov.

(* ---------- 3. the one-period expectation of the simulated cost is the per-state cost of the chain ---------- *)
Section OnePeriod.
Variable pmf : list Q.
Variables (h p K : Q) (s S : Z).
Hypothesis s_lt_S : (s < S)%Z.
Let n := Z.to_nat (S - s).

Lemma wsum_tail_indicator (c : Q) i : (i < n)%nat ->
  wsum (fun d => if Nat.ltb (i + d) n then 0 else c) 0 pmf == c * tailp pmf (n - i).
Proof. intro Hi. rewrite wsum_as_range. cbn [Nat.add].
  set (m := Nat.max (length pmf) (n - i)).
  rewrite <- (range_pad (fun d => if Nat.ltb (i + d) n then 0 else c) pmf m) by (unfold m; lia).
  replace m with ((n - i) + (m - (n - i)))%nat by (unfold m; lia). rewrite qsum_range_split. cbn [Nat.add].
  rewrite qsum_range_zero.
  2:{ intros l Hl. replace (Nat.ltb (i + l) n) with true by (symmetry; apply Nat.ltb_lt; lia). lra. }
  rewrite (tailp_range pmf (n - i) (m - (n - i))) by (unfold m; lia).
  rewrite <- qsum_range_scale. rewrite <- (qsum_range_unshift (fun j => c * pf pmf (n - i + j)) (m - (n - i)) (n - i)).
  rewrite Qplus_0_l. apply qsum_range_ext. intros l Hl. unfold pf. replace (Nat.ltb (i + l) n) with false by (symmetry; apply Nat.ltb_ge; lia).
  replace (n - i + (l - (n - i)))%nat with l by lia. lra. Qed.

Theorem pcost_expectation i : (i < n)%nat ->
  wsum (fun d => pcost h p K S n i d) 0 pmf == cstate pmf (Gdisc h p pmf) K n S i.
Proof. intro Hi. unfold pcost, cstate.
  rewrite wsum_add, (wsum_tail_indicator K i Hi). apply Qplus_comp; [|reflexivity].
  rewrite Gdisc_def, wsum_as_range. cbn [Nat.add]. apply qsum_range_ext. intros d _. unfold pf, qpos.
  rewrite qnat_inj_sub.
  setoid_replace (qnat d - (inject_Z S - qnat i)) with (- (inject_Z S - qnat i - qnat d)) by ring. rewrite qnat_inj_sub.
  rewrite <- inject_Z_opp.
  replace (S - Z.of_nat i - Z.of_nat d)%Z with (S - Z.of_nat i - Z.of_nat d)%Z by reflexivity.
  replace (- (S - Z.of_nat i - Z.of_nat d))%Z with (Z.of_nat d - (S - Z.of_nat i))%Z by lia. lra. Qed.
End OnePeriod.

(* ---------- 4. the expectation of the simulated period cost, and the Cesaro bound ---------- *)
Section Main.
Variable pmf : list Q.
Hypothesis p_nonneg : forall l, 0 <= pf pmf l.
Hypothesis p_sum1 : qsum pmf == 1.
Hypothesis p0_lt1 : pf pmf 0 < 1.
Variables (s S x0 : Z) (h p K : Q).
Hypothesis s_lt_S : (s < S)%Z.
Hypothesis x0_range : (s < x0 <= S)%Z.
Hypothesis support_small : (Z.of_nat (length pmf) + (S - s) <= 10 ^ 100)%Z.
Let n := Z.to_nat (S - s).
Let i0 := Z.to_nat (S - x0).

(* expectation of the per-period cost function along the offset path started at any state j0 *)
Lemma expect_pcost j0 t T : (j0 < n)%nat -> (t < T)%nat ->
  expect_list T 0 pmf (fun ds => pcost h p K S n (off_path n j0 (firstn t ds)) (nth t ds 0%nat))
  == ecost pmf (Gdisc h p pmf) K n S (unitv n j0) t.
Proof. intros Hi0 Ht.
  assert (Hn : (1 <= n)%nat) by (unfold n; lia).
  rewrite (ecost_as_expectation pmf n Hn (Gdisc h p pmf) K S t j0 Hi0).
  replace T with (t + (1 + (T - Datatypes.S t)))%nat by lia. rewrite expect_list_app.
  apply expect_list_ext_in. intros x Hx Hsx. cbv beta.
  rewrite expect_list_app. cbn [expect_list]. cbn [Nat.add].
  assert (Hlt : (off_path n j0 x < n)%nat).
  { clear - Hi0 Hn. unfold off_path. revert Hi0. generalize j0. induction x as [|d r IH]; intros i Hi; cbn [fold_left]; [exact Hi|]. apply IH. apply off_lt'. exact Hn. }
  pose proof (pcost_expectation pmf h p K s S s_lt_S (off_path n j0 x) Hlt) as PE. fold n in PE. rewrite <- PE.
  apply wsum_ext. intro d.
  rewrite (expect_list_ext_in _ 0 pmf _ (fun _ => pcost h p K S n (off_path n j0 x) d)); [apply expect_list_const; exact p_sum1|].
  intros z _ _. rewrite firstn_app, Hx, Nat.sub_diag, firstn_all2 by lia. cbn [firstn]. rewrite app_nil_r.
  rewrite app_nth2 by lia. rewrite Hx, Nat.sub_diag. reflexivity. Qed.

Theorem expected_ss_period_cost dss t T : length dss = T -> (t < T)%nat ->
  expect_list T 0 pmf (ss_period_cost s S h p K 1 x0 dss t) == ecost pmf (Gdisc h p pmf) K n S (unitv n i0) t.
Proof. intros Hdss Ht.
  assert (Hi0 : (i0 < n)%nat) by (unfold i0, n; lia).
  rewrite <- (expect_pcost i0 t T Hi0 Ht).
  apply expect_list_ext_in. intros ds Hlen Hs. apply ss_period_cost_L1; try assumption; try lia.
  eapply Forall_impl; [|exact Hs]. intros d Hd. unfold in_supp in Hd. lia. Qed.

Lemma sim_avg_is_avgcost dss T : length dss = T ->
  sim_avg_cost s S h p K 1 x0 dss pmf T == avgcost pmf (Gdisc h p pmf) K n S (unitv n i0) T.
Proof. intro Hdss. unfold sim_avg_cost, avgcost, totcost.
  rewrite (qsum_range_ext _ (ecost pmf (Gdisc h p pmf) K n S (unitv n i0))); [reflexivity|].
  intros t Ht. apply expected_ss_period_cost; [exact Hdss | lia]. Qed.

(* MAIN THEOREM *)
Theorem sS_stage_long_run_expected_cost dss T : length dss = T -> (1 <= T)%nat ->
  Qabs (sim_avg_cost s S h p K 1 x0 dss pmf T - gcost pmf (Gdisc h p pmf) K s S) <= ergB pmf (Gdisc h p pmf) K s S / qnat T.
Proof. intros Hdss HT. rewrite (sim_avg_is_avgcost dss T Hdss).
  apply (ss_ergodic_from_state pmf (Gdisc h p pmf) K p_nonneg p_sum1 p0_lt1 s S i0 T s_lt_S); [unfold i0; lia | exact HT]. Qed.

(* whatever s_s_cost_discrete returns *)
Theorem sS_stage_long_run_entry dss T q : s_s_cost_discrete h p K pmf s S = Ok q -> length dss = T -> (1 <= T)%nat ->
  Qabs (sim_avg_cost s S h p K 1 x0 dss pmf T - q) <= ergB pmf (Gdisc h p pmf) K s S / qnat T.
Proof. intros Hq Hdss HT. destruct (cost_entry _ _ _ _ _ _ _ Hq) as (_ & _ & _ & _ & _ & ->).
  apply sS_stage_long_run_expected_cost; assumption. Qed.
End Main.
