(* Pathwise: on the concrete local base-stock serial networks [NWloc h p order stages] of Sim/Serial.v,
   (1) the cost identity of SerialCost_proofs.v with the rates h, p of the network,
   (2) the echelon inventory level of every stage at the start of every period is the pure Clark-Scarf recursion [eils]
       on the demand history (levels = suffix sums of the local levels, as [cst] lists them),
   (3) hence -- when only the sink charges a stockout cost -- the total cost of period t is [pure_cost], a function of the
       demand history only:  sum_j h^e_j IL^e_j(t) + (p + sum_j h^e_j) (IL^e_1(t))^-,  for EVERY period t. *)
From Coq Require Import Permutation.
From SV Require Import Sim.Model Sim.StateLemmas Sim.Inv_base Sim.Inv_book Sim.Inv_pipe Sim.Inv_node Sim.Inv_rm Sim.Inv_init Sim.Inv_run
  Sim.Inv_bound Sim.Single Sim.Policy_thms Sim.Delay Sim.PerPeriod Sim.Obs Sim.Wfb Sim.Serial Sim.ShipDelay.
From SV Require Import Sim.CS Sim.CS_math Sim.CS_graph Sim.CS_step Sim.CS_run Sim.CS_chain Sim.CS_serial.
From SV Require Import Sim.SerialExp Sim.SerialCost_proofs Sim.SerialLaw_proofs.

(* ---- list algebra ---- *)
Lemma ech_cost_ext (h h' E : N -> Q) : forall l hprev, (forall n, In n l -> h n = h' n) -> ech_cost h E hprev l = ech_cost h' E hprev l.
Proof. induction l as [|n r IH]; intros hprev H; cbn [ech_cost]; [reflexivity|].
  rewrite (H n (or_introl eq_refl)). f_equal. apply IH. intros m Hm. apply H. right. exact Hm. Qed.
Lemma interior_ext (p p' IL : N -> Q) : forall l, (forall n, In n l -> p n = p' n) -> interior_stockout p IL l = interior_stockout p' IL l.
Proof. induction l as [|n r IH]; intros H; cbn [interior_stockout]; [reflexivity|]. destruct r as [|m r']; [reflexivity|].
  rewrite (H n (or_introl eq_refl)). f_equal. apply IH. intros k Hk. apply H. right. exact Hk. Qed.
Lemma interior_zero (p IL : N -> Q) : forall l, Forall (fun n => p n == 0) (removelast l) -> interior_stockout p IL l == 0.
Proof. induction l as [|n r IH]; intros H; cbn [interior_stockout]; [reflexivity|]. destruct r as [|m r']; [reflexivity|].
  change (removelast (n :: m :: r')) with (n :: removelast (m :: r')) in H. inversion H as [|? ? H0 Hr]; subst.
  rewrite H0, (IH Hr). lra. Qed.

(* hsum over a reversed list, with an accumulator *)
Fixpoint hsum_acc (d : nat -> Q) (acc l : list cstage) (t : nat) : Q :=
  match l with [] => 0 | x :: r => c_he x * eils d (map strip (x :: acc)) t + hsum_acc d (x :: acc) r t end.
Lemma hsum_acc_rev d t : forall l acc, hsum d (List.rev l ++ acc) t == hsum_acc d acc l t + hsum d acc t.
Proof. induction l as [|x r IH]; intros acc; cbn [List.rev app hsum_acc]; [lra|].
  rewrite <- app_assoc. cbn [app]. rewrite IH.
  change (hsum d (x :: acc) t) with (c_he x * eils d (map strip (x :: acc)) t + hsum d acc t). lra. Qed.

Lemma hsum_ext d d' t : (forall u, (u < t)%nat -> d u == d' u) -> forall rst, hsum d rst t == hsum d' rst t.
Proof. intros H. induction rst as [|x up IH]; [reflexivity|].
  change (c_he x * eils d (map strip (x :: up)) t + hsum d up t == c_he x * eils d' (map strip (x :: up)) t + hsum d' up t).
  rewrite IH, (eils_ext d d' _ t H). reflexivity. Qed.

(* sum of the echelon holding rates telescopes to the local rate of the sink *)
Lemma cst_he_sum h : forall stages hprev, stages <> [] ->
  qsum (map c_he (cst h hprev stages)) == h (last (map sidx stages) 0%N) - hprev.
Proof. induction stages as [|x r IH]; intros hprev Hne; [congruence|]. cbn [cst map qsum].
  destruct r as [|y r']; [cbn [cst map qsum last]; unfold c_he; cbn [fst]; lra|].
  rewrite (IH (h (sidx x))) by discriminate. cbn [map]. rewrite last_cons2. unfold c_he at 1. cbn [fst]. lra. Qed.

Section Concrete.
Variables (h p : N -> Q) (order : list N) (stages : list stage).
Hypothesis Hne : stages <> [].
Hypothesis ND : NoDup (map sidx stages).
Hypothesis Hperm : Permutation order (map sidx stages).
Hypothesis Hl : Forall (fun x => 0 <= slev x) stages.
Notation Bs := (base h p order stages).
Notation lvs := (lev stages).
Notation chs := (map sidx stages).
Notation NWl := (NWloc h p order stages).
Variable inputs : list ((N -> bool) * (N -> Q)).
Hypothesis Hi : inputs_ok stages inputs.
Notation rec t := (nth t (run NWl inputs) empty_st).
Notation d := (dfn chs inputs).
Notation Eil := (eILs Bs lvs chs inputs).
Notation Sech := (ech lvs chs).

Lemma cfg_in n : In n chs -> hc (cfg Bs n) = h n /\ pc (cfg Bs n) = p n /\ ith (cfg Bs n) = None /\ rev (cfg Bs n) = 0.
Proof. intros Hn. destruct (in_split n _ Hn) as (u & v & E). cbn [cfg base]. unfold base_cfg. rewrite (c_sp stages ND u n v E).
  cbn [hc pc ith rev]. repeat split; reflexivity. Qed.
Lemma sink_in : In (sinkn chs) chs.
Proof. unfold sinkn. destruct stages as [|x r]; [congruence|]. cbn [map].
  destruct (exists_last (l := sidx x :: map sidx r) ltac:(discriminate)) as (l' & a & E). rewrite E, last_snoc.
  apply in_or_app. right. left. reflexivity. Qed.

(* (1) the cost identity on the concrete network *)
Theorem serial_cost_identity t : (t < length inputs)%nat ->
  net_period_cost NWl (rec t)
  == ech_cost h (fun n => echelon_il NWl (rec t) n) 0 chs
     + (h (sinkn chs) + p (sinkn chs)) * negp (gq (rec t) (fIL, sinkn chs, Ext))
     + interior_stockout p (fun n => gq (rec t) (fIL, n, Ext)) chs.
Proof. intros Ht.
  pose proof (period_cost_echelon Bs lvs chs (c_ndN h p order stages ND Hperm) (c_same h p order stages Hperm) ND
                (c_ser h p order stages ND) (c_in h p order stages ND) (c_out h p order stages) (c_lv stages Hl) (c_lv0 stages)
                (c_nonempty order stages Hne ND Hperm Hl)
                (fun n Hn => conj (proj1 (proj2 (proj2 (cfg_in n Hn)))) (proj2 (proj2 (proj2 (cfg_in n Hn))))) inputs Hi t Ht) as X.
  rewrite (ech_cost_ext (fun n => hc (cfg Bs n)) h _ chs 0 (fun n Hn => proj1 (cfg_in n Hn))) in X.
  rewrite (interior_ext (fun n => pc (cfg Bs n)) p _ chs (fun n Hn => proj1 (proj2 (cfg_in n Hn)))) in X.
  destruct (cfg_in _ sink_in) as (Eh & Ep & _). rewrite Eh, Ep in X. exact X. Qed.

(* (2) the echelon inventory levels follow the pure recursion *)
Definition lev_rel (l : list N) (rst : list (Q * nat)) : Prop :=
  Forall2 (fun m y => fst y == Sech m /\ snd y = lead stages m) l rst.

Lemma eils_path : forall pre n post, chs = pre ++ n :: post -> forall rst, lev_rel (n :: List.rev pre) rst ->
  forall t, (t <= length inputs)%nat -> Eil n t == eils d rst t.
Proof.
  induction pre as [|q pre0 IH] using rev_ind; intros n post E rst Hrel t Ht.
  - inversion Hrel as [|? y ? up (RS & RL) Hup]; subst. cbn [List.rev] in Hup. inversion Hup; subst. destruct y as [Se L]. cbn [fst snd] in RS, RL.
    destruct t as [|u]; cbn [eILs eils]; [rewrite RS; reflexivity|].
    rewrite (serial_head_echelon h p order stages Hne ND Hperm Hl inputs Hi n post u E ltac:(lia)). rewrite RS, RL. reflexivity.
  - rewrite rev_unit in Hrel. inversion Hrel as [|? y ? up (RS & RL) Hup]; subst. destruct y as [Se L]. cbn [fst snd] in RS, RL.
    rewrite snoc_cons in E.
    destruct t as [|u]; cbn [eILs eils]; [rewrite RS; reflexivity|].
    rewrite (serial_edge_echelon h p order stages Hne ND Hperm Hl inputs Hi pre0 q n post u E ltac:(lia)).
    unfold cs_edge_echelon. rewrite <- RL.
    destruct up as [|y up']; [inversion Hup|].
    rewrite (IH q (n :: post) E (y :: up') Hup (S u - L)%nat ltac:(lia)). rewrite RS. reflexivity.
Qed.

(* the entry of [cst] for a stage carries its echelon level and lead time *)
Lemma cst_entry spre x spost : stages = spre ++ x :: spost ->
  slev x + qsum (map slev spost) == Sech (sidx x) /\ sslt x = lead stages (sidx x).
Proof. intros E. split.
  - rewrite (echelon_level_formula stages spre x spost ND E). reflexivity.
  - symmetry. apply (lev_lead_in stages ND x). rewrite E. apply in_or_app. right. left. reflexivity. Qed.

(* the holding part, stage by stage along the chain *)
Lemma cost_fold t : (t < length inputs)%nat -> forall spost spre hprev acc, stages = spre ++ spost ->
  lev_rel (List.rev (map sidx spre)) (map strip acc) ->
  ech_cost h (fun n => echelon_il NWl (rec t) n) hprev (map sidx spost) == hsum_acc d acc (cst h hprev spost) (S t)
  /\ (spost <> [] -> lev_rel (List.rev chs) (map strip (List.rev (cst h hprev spost) ++ acc))).
Proof.
  intros Ht. induction spost as [|x r IH]; intros spre hprev acc E Hacc.
  - split; [reflexivity|congruence].
  - cbn [map ech_cost cst hsum_acc].
    set (cx := (h (sidx x) - hprev, slev x + qsum (map slev r), sslt x) : cstage).
    destruct (cst_entry spre x r E) as (RS & RL).
    assert (Hrel : lev_rel (sidx x :: List.rev (map sidx spre)) (map strip (cx :: acc))).
    { cbn [map]. constructor; [|exact Hacc]. unfold strip, cx, c_Se, c_L. cbn [fst snd]. split; assumption. }
    assert (Ech : chs = map sidx spre ++ sidx x :: map sidx r) by (rewrite E, map_app; reflexivity).
    pose proof (eils_path (map sidx spre) (sidx x) (map sidx r) Ech _ Hrel (S t) ltac:(lia)) as P. cbn [eILs] in P.
    assert (E2 : stages = (spre ++ [x]) ++ r) by (rewrite snoc_cons; exact E).
    assert (Hacc2 : lev_rel (List.rev (map sidx (spre ++ [x]))) (map strip (cx :: acc))).
    { rewrite map_app. cbn [map]. rewrite rev_unit. exact Hrel. }
    destruct (IH (spre ++ [x]) (h (sidx x)) (cx :: acc) E2 Hacc2) as [I1 I2].
    split.
    + rewrite I1, P. unfold cx at 1, c_he. cbn [fst]. reflexivity.
    + intros _. cbn [List.rev]. rewrite <- app_assoc. cbn [app].
      destruct r as [|y r']; [|apply I2; discriminate].
      cbn [cst List.rev app]. rewrite Ech. cbn [map]. rewrite rev_unit. exact Hrel.
Qed.

(* (3) the period cost is a function of the demand history *)
Theorem serial_cost_pure pH t : (t < length inputs)%nat ->
  Forall (fun n => p n == 0) (removelast chs) -> pH == p (sinkn chs) + h (sinkn chs) ->
  net_period_cost NWl (rec t) == pure_cost pH d (List.rev (cst h 0 stages)) t.
Proof.
  intros Ht Hp0 HpH. rewrite (serial_cost_identity t Ht), (interior_zero p _ chs Hp0).
  destruct (cost_fold t Ht stages [] 0 [] eq_refl ltac:(constructor)) as [F1 F2]. specialize (F2 Hne). rewrite app_nil_r in F2.
  unfold pure_cost. rewrite F1.
  pose proof (hsum_acc_rev d (S t) (cst h 0 stages) []) as R. rewrite app_nil_r in R. rewrite R. cbn [hsum].
  (* the sink: its echelon level is its local level *)
  assert (X : exists pre, chs = pre ++ [sinkn chs]).
  { unfold sinkn. destruct (exists_last (l := chs) (c_nonempty order stages Hne ND Hperm Hl)) as (l' & a & E). exists l'. rewrite E, last_snoc. reflexivity. }
  destruct X as (pre & Ech).
  assert (Hrel : lev_rel (sinkn chs :: List.rev pre) (map strip (List.rev (cst h 0 stages)))).
  { rewrite Ech, rev_unit in F2. exact F2. }
  pose proof (eils_path pre (sinkn chs) [] Ech _ Hrel (S t) ltac:(lia)) as P. cbn [eILs] in P.
  pose proof (echelon_rec Bs lvs chs (c_ndN h p order stages ND Hperm) (c_same h p order stages Hperm) ND
                (c_ser h p order stages ND) (c_in h p order stages ND) (c_out h p order stages) (c_lv stages Hl) (c_lv0 stages)
                (c_nonempty order stages Hne ND Hperm Hl) inputs Hi pre (sinkn chs) [] t Ech Ht) as Q0.
  unfold below, qsumf in Q0. cbn [map qsum] in Q0.
  assert (EIL : gq (rec t) (fIL, sinkn chs, Ext) == eils d (map strip (List.rev (cst h 0 stages))) (S t)).
  { rewrite <- P, Q0, Qplus_0_r. reflexivity. }
  rewrite EIL, HpH. ring.
Qed.
End Concrete.

Print Assumptions serial_cost_identity.
Print Assumptions eils_path.
Print Assumptions serial_cost_pure.
