(* The whole chain at once: the inventory-level trajectory of EVERY stage of the local base-stock serial network is the
   executable reference [cs_serial] of CS.v evaluated on the demand sequence (a function of the demand history only),
   for every number of stages.  Induction along the chain over the per-edge theorems of CS_run.v. *)
From Coq Require Import Permutation.
From SV Require Import Sim.Model Sim.StateLemmas Sim.Inv_base Sim.Inv_book Sim.Inv_pipe Sim.Inv_node Sim.Inv_rm Sim.Inv_init Sim.Inv_run
  Sim.Inv_bound Sim.Single Sim.Policy_thms Sim.Delay Sim.PerPeriod Sim.Obs Sim.Wfb Sim.Serial Sim.ShipDelay.
From SV Require Import Sim.CS Sim.CS_math Sim.CS_graph Sim.CS_step Sim.CS_run.

(* what the stage after the stages l1 is fed with *)
Fixpoint feed_after (feed d : nat -> Q) (l1 : list (Q * nat)) : nat -> Q :=
  match l1 with [] => feed | (lv, L) :: r => feed_after (ship (xrec lv (delay L feed) d) d) d r end.
Lemma cs_chain_nth d lv L l2 dflt : forall l1 feed,
  nth (length l1) (cs_chain feed d (l1 ++ (lv, L) :: l2)) dflt = xrec lv (delay L (feed_after feed d l1)) d.
Proof. induction l1 as [|[lv1 L1] r IH]; intros feed; cbn [app cs_chain length nth feed_after]; [reflexivity|]. apply IH. Qed.
Lemma feed_after_snoc d lv L : forall l1 feed,
  feed_after feed d (l1 ++ [(lv, L)]) = ship (xrec lv (delay L (feed_after feed d l1)) d) d.
Proof. induction l1 as [|[lv1 L1] r IH]; intros feed; cbn [app feed_after]; [reflexivity|]. apply IH. Qed.

Lemma ship_ext xp xp' d k : xp k == xp' k -> xp (S k) == xp' (S k) -> ship xp d k == ship xp' d k.
Proof. intros H1 H2. unfold ship. rewrite H1, H2. reflexivity. Qed.

Section Chain.
Variables (B : net) (lv : N -> Q) (ch : list N).
Hypothesis HndN : NoDup (nodes B).
Hypothesis Hsame : forall n, In n (nodes B) <-> In n ch.
Hypothesis Hnd : NoDup ch.
Hypothesis Hser : serial_cfg B ch.
Hypothesis Hin : forall n, In n ch -> olt (cfg B n) = 0%nat /\ cap (cfg B n) = None /\ init_il (cfg B n) = Some (lv n)
                                     /\ init_orders (cfg B n) = 0 /\ init_ships (cfg B n) = 0.
Hypothesis Hout : forall n, ~ In n ch -> cfg B n = dflt_cfg.
Hypothesis Hlv : forall n, 0 <= lv n.
Hypothesis Hlv0 : forall n, ~ In n ch -> lv n == 0.
Hypothesis Hnonempty : ch <> [].
Variable inputs : list ((N -> bool) * (N -> Q)).
Hypothesis Hok : Forall (input_ok ch) inputs.
Notation NW := (repol B (fun n => BS (lv n))).
Notation rec t := (nth t (run NW inputs) empty_st).
Notation d := (dfn ch inputs).
Notation ILs := (ILs B lv inputs).
Definition stg (m : N) : Q * nat := (lv m, slt (cfg B m)).

Lemma chain_prefix : forall pre n post, ch = pre ++ n :: post -> forall t, (t <= length inputs)%nat ->
  ILs n t == xrec (lv n) (delay (slt (cfg B n)) (feed_after d d (map stg pre))) d t.
Proof. induction pre as [|p pre0 IH] using rev_ind; intros n post E t Ht.
  - destruct t as [|t]; [reflexivity|]. cbn [ILs map feed_after]. rewrite head_closed.
    apply (head_pathwise B lv ch HndN Hsame Hnd Hser Hin Hout Hlv Hlv0 Hnonempty inputs Hok n post t E). lia.
  - rewrite snoc_cons in E. destruct t as [|t]; [reflexivity|]. cbn [CS_run.ILs].
    rewrite (edge_pathwise B lv ch HndN Hsame Hnd Hser Hin Hout Hlv Hlv0 Hnonempty inputs Hok pre0 p n post t E) by lia.
    rewrite <- edge_closed by (cbn [CS_run.ILs]; apply Hlv).
    rewrite (List.map_app stg pre0 [p]). cbn [map]. unfold stg at 2. rewrite feed_after_snoc.
    apply xrec_ext; [reflexivity|]. intros u Hu. split; [|reflexivity]. unfold delay.
    destruct (Nat.ltb u (slt (cfg B n))) eqn:Eb; [reflexivity|]. apply Nat.ltb_ge in Eb.
    apply ship_ext; apply (IH p (n :: post) E); lia. Qed.

(* the trajectory of the stage at position [length pre] of the chain is the corresponding component of the reference *)
Theorem chain_reference pre n post t : ch = pre ++ n :: post -> (t < length inputs)%nat ->
  gq (rec t) (fIL, n, Ext) == nth (length pre) (cs_serial d (map stg ch)) (fun _ => 0) (S t).
Proof. intros E Ht. pose proof (chain_prefix pre n post E (S t) ltac:(lia)) as X. cbn [CS_run.ILs] in X. rewrite X.
  unfold cs_serial.
  assert (M : map stg ch = map stg pre ++ (lv n, slt (cfg B n)) :: map stg post) by (rewrite E at 1; rewrite map_app; reflexivity).
  rewrite M. rewrite <- (map_length stg pre). rewrite cs_chain_nth. reflexivity. Qed.
End Chain.
