(* Per-period forms of the conservation laws: the cumulative ghost counters advance, in each period, by exactly the
   per-period state variables (inbound orders, outbound shipments, inbound shipments, order quantities), because every
   node is handled exactly once per phase (decidable traversal hypotheses) and its neighbour lists are duplicate-free.
   With them the cumulative identities of Main.v become the period-by-period statements of property C01. *)
From SV Require Import Sim.Model Sim.StateLemmas Sim.Inv_base Sim.Inv_book Sim.Inv_pipe Sim.Inv_node Sim.Inv_init Sim.Inv_run Sim.Inv_bound
  Sim.Single Sim.Policy_thms Sim.Delay.

Section PerPeriod.
Variable (NW : net).
Notation C := (cfg NW).
Hypothesis WF : wf_net NW.
Hypothesis VO : visit_ok NW.
Variable (dis : N -> bool) (dem : N -> Q).

(* rational keys of other nodes are never written by a node's actions *)
Lemma orders_q_other s m k : node_of k <> m -> gq (orders_action NW dis dem s m) k = gq s k.
Proof. intros Hk. assert (K : forall f x, k <> (f, m, x)) by (intros f x E; subst k; apply Hk; reflexivity).
  unfold orders_action, place_order.
  assert (A : gq (recv_orders NW (gen_demand NW dem s m) m) k = gq s k).
  { unfold recv_orders. apply (fold_left_inv (fun a => gq a k = gq s k)).
    - intros a c _ Ha. unfold recv_order_one. rewrite !gq_addq_other by apply K. rewrite gq_sl, gq_sq_other by apply K. exact Ha.
    - unfold gen_demand. destruct (has_dem (C m)); [apply gq_sl|reflexivity]. }
  destruct (disk NW dis m dOP); [exact A|]. rewrite <- A.
  apply (fold_left_inv (fun a => gq a k = gq (recv_orders NW (gen_demand NW dem s m) m) k)).
  - intros a q _ Ha. unfold place_one. rewrite !gq_addq_other by apply K. destruct q; rewrite gq_sl; exact Ha.
  - rewrite !gq_addq_other by apply K. reflexivity. Qed.

Lemma ships_q_other s m k : node_of k <> m -> gq (ships_action NW dis s m) k = gq s k.
Proof. intros Hk. assert (K : forall f x, k <> (f, m, x)) by (intros f x E; subst k; apply Hk; reflexivity).
  unfold ships_action.
  assert (A : gq (recv_ship NW dis s m) k = gq s k).
  { unfold recv_ship. apply (fold_left_inv (fun a => gq a k = gq s k)); [|reflexivity].
    intros a q _ Ha. unfold recv_ship_one. rewrite gq_addq_other, gq_sq_other, !gq_addq_other by apply K. rewrite gq_sl, gq_sq_other by apply K. exact Ha. }
  assert (B : gq (fst (produce NW (recv_ship NW dis s m) m)) k = gq s k).
  { unfold produce. cbn [fst]. rewrite !gq_addq_other by apply K. rewrite <- A.
    apply (fold_left_inv (fun a => gq a k = gq (recv_ship NW dis s m) k)); [|reflexivity]. intros a q _ Ha. rewrite gq_addq_other by apply K. exact Ha. }
  destruct (produce NW (recv_ship NW dis s m) m) as [s2 made]. cbn [fst] in B. unfold fill_rate. rewrite gq_sq_other by apply K. unfold serve.
  apply (fold_left_inv (fun a => gq (fst a) k = gq s k)); [|cbn [fst]; rewrite gq_sq_other by apply K; exact B].
  intros [a oh] c _ Ha. cbn [fst] in Ha. unfold serve_one. set (o := serve_calc _ _ _ _ _).
  assert (E : gq (addq (addq (addq (sq (sq (sq (addq (addq (addq (sq a (fOS, m, c) (o_os o)) (fDMFS, m, Ext) (o_dmfs o)) (fDMC, m, Ext) (o_dmfs o))
             (fIL, m, Ext) (- gq a (fPIO, m, c))) (fBO, m, c) (o_bo o)) (fODI, m, c) (o_odi o)) (fPIO, m, c) 0)
             (fPEND, m, Ext) (- gq a (fPIO, m, c))) (fSRV, m, Ext) (gq a (fPIO, m, c))) (fcOS, m, c) (o_os o)) k = gq a k).
  { rewrite !gq_addq_other, !gq_sq_other, !gq_addq_other, gq_sq_other by apply K. reflexivity. }
  destruct c; cbn [fst]; [rewrite E; exact Ha|rewrite gq_sl, E; exact Ha]. Qed.

(* fields a phase never writes *)
Lemma orders_field_frame f s m : f <> fIO -> f <> fDC -> f <> fPIO -> f <> fPEND -> f <> fcIO -> f <> fOQFG -> f <> fPFG -> f <> fOQ -> f <> fOO -> f <> fcOQ ->
  QF f s (orders_action NW dis dem s m).
Proof. intros. unfold orders_action, place_order.
  assert (A : QF f s (recv_orders NW (gen_demand NW dem s m) m)).
  { unfold recv_orders. apply fold_left_inv; [intros a c _ Ha; unfold recv_order_one; repeat first [apply QF_sl | apply QF_sq; [congruence|] | apply QF_addq; [congruence|] | assumption]|].
    unfold gen_demand. destruct (has_dem (C m)); [apply QF_sl|]; apply QF_refl. }
  destruct (disk NW dis m dOP); [exact A|].
  apply fold_left_inv; [intros a q _ Ha; unfold place_one; destruct q; repeat first [apply QF_sl | apply QF_sq; [congruence|] | apply QF_addq; [congruence|] | assumption]|].
  repeat first [apply QF_addq; [congruence|] | assumption]. Qed.

Lemma ships_field_frame f s m : f = fIO \/ f = fcIO \/ f = fDC \/ f = fOQ \/ f = fcOQ -> QF f s (ships_action NW dis s m).
Proof. intros Hf. assert (F : f <> fIS /\ f <> fRM /\ f <> fOO /\ f <> fIDI /\ f <> fcIS /\ f <> fIL /\ f <> fPFG /\ f <> fCP /\ f <> fDMFS /\ f <> fOS /\ f <> fDMC
    /\ f <> fBO /\ f <> fODI /\ f <> fPIO /\ f <> fPEND /\ f <> fSRV /\ f <> fcOS /\ f <> fFR) by (destruct Hf as [E|[E|[E|[E|E]]]]; subst f; repeat split; discriminate).
  destruct F as (F1&F2&F3&F4&F5&F6&F7&F8&F9&F10&F11&F12&F13&F14&F15&F16&F17&F18).
  unfold ships_action.
  assert (H1 : QF f s (recv_ship NW dis s m)) by (unfold recv_ship; apply fold_left_inv; [intros a x _ Ha; unfold recv_ship_one; repeat first [apply QF_sl | apply QF_sq; [congruence|] | apply QF_addq; [congruence|] | assumption]|apply QF_refl]).
  assert (H2 : QF f s (fst (produce NW (recv_ship NW dis s m) m))).
  { unfold produce. cbn [fst]. repeat first [apply QF_addq; [congruence|]]. apply fold_left_inv; [intros a x _ Ha; apply QF_addq; [congruence|exact Ha]|exact H1]. }
  destruct (produce NW (recv_ship NW dis s m) m) as [s2 made]. cbn [fst] in H2. unfold fill_rate. apply QF_sq; [congruence|]. unfold serve.
  apply (fold_left_inv (fun a => QF f s (fst a))); [|cbn [fst]; apply QF_sq; [congruence|exact H2]].
  intros [a oh] c _ Ha. cbn [fst] in Ha. unfold serve_one. set (o := serve_calc _ _ _ _ _).
  destruct c; cbn [fst]; repeat first [apply QF_sl | apply QF_sq; [congruence|] | apply QF_addq; [congruence|] | assumption]. Qed.

(* ---- the node's own steps: cumulative counters advance by the per-period values ---- *)
Variable m : N.

Lemma recv_fold_io : forall l s0, NoDup l ->
  let s' := fold_left (recv_order_one m) l s0 in
  (forall x, In x l -> gq s' (fcIO, m, x) = gq s0 (fcIO, m, x) + gq s' (fIO, m, x)) /\
  (forall x, ~ In x l -> gq s' (fcIO, m, x) = gq s0 (fcIO, m, x) /\ gq s' (fIO, m, x) = gq s0 (fIO, m, x)) /\
  gq s' (fDC, m, Ext) == gq s0 (fDC, m, Ext) + qsumf (fun x => gq s' (fIO, m, x)) l.
Proof. induction l as [|c r IH]; intros s0 ND; cbn [fold_left].
  - split; [intros x []|]. split; [intros x _; split; reflexivity|]. unfold qsumf. cbn. lra.
  - inversion ND as [|? ? Hc Hr]; subst. destruct (IH (recv_order_one m s0 c) Hr) as (I1 & I2 & I3).
    set (s1 := recv_order_one m s0 c) in *. set (s' := fold_left (recv_order_one m) r s1) in *.
    set (x0 := hd0 (gl s0 (fOP, m, c))).
    assert (A1 : gq s1 (fcIO, m, c) = gq s0 (fcIO, m, c) + x0) by (unfold s1, recv_order_one; gs; reflexivity).
    assert (A2 : gq s1 (fIO, m, c) = x0) by (unfold s1, recv_order_one; gs; reflexivity).
    assert (A3 : gq s1 (fDC, m, Ext) = gq s0 (fDC, m, Ext) + x0) by (unfold s1, recv_order_one; gs; reflexivity).
    assert (A4 : forall y, y <> c -> gq s1 (fcIO, m, y) = gq s0 (fcIO, m, y) /\ gq s1 (fIO, m, y) = gq s0 (fIO, m, y)).
    { intros y Hy. unfold s1, recv_order_one. rewrite gq_addq_other by (intro E; inversion E; subst; contradiction). gs.
      rewrite ?gq_sq_other by (intro E; inversion E; subst; contradiction). split; reflexivity. }
    destruct (I2 c Hc) as [C1 C2].
    split; [|split].
    + intros y [E|Hy]; [subst y; rewrite C1, C2, A1, A2; reflexivity|]. rewrite (I1 y Hy). destruct (A4 y) as [B1 _]; [intro E; subst; contradiction|]. rewrite B1. reflexivity.
    + intros y Hy. destruct (I2 y) as [D1 D2]; [intro X; apply Hy; right; exact X|]. destruct (A4 y) as [B1 B2]; [intro E; subst; apply Hy; left; reflexivity|].
      rewrite D1, D2, B1, B2. split; reflexivity.
    + rewrite I3, A3. unfold qsumf. cbn [map qsum]. rewrite C2, A2. lra. Qed.

Lemma orders_effect_io s : let e := orders_action NW dis dem s m in
  (forall x, In x (customers (C m)) -> gq e (fcIO, m, x) = gq s (fcIO, m, x) + gq e (fIO, m, x)) /\
  gq e (fDC, m, Ext) == gq s (fDC, m, Ext) + qsumf (fun x => gq e (fIO, m, x)) (customers (C m)).
Proof. cbv zeta. unfold orders_action.
  set (s0 := gen_demand NW dem s m).
  assert (G : forall k, gq s0 k = gq s k) by (intros k; unfold s0, gen_demand; destruct (has_dem (C m)); [apply gq_sl|reflexivity]).
  destruct (recv_fold_io (customers (C m)) s0 (wf_cus NW WF m)) as (R1 & _ & R3). cbv zeta in R1, R3.
  unfold recv_orders. set (s1 := fold_left (recv_order_one m) (customers (C m)) s0) in *.
  assert (P : forall f x, f = fIO \/ f = fcIO \/ f = fDC -> gq (place_order NW dis s1 m) (f, m, x) = gq s1 (f, m, x)).
  { intros f x Hf. unfold place_order. destruct (disk NW dis m dOP); [reflexivity|].
    apply (fold_left_inv (fun a => gq a (f, m, x) = gq s1 (f, m, x))).
    - intros a q _ Ha. unfold place_one. rewrite !gq_addq_other by (intro E; inversion E; subst; destruct Hf as [X|[X|X]]; discriminate). destruct q; rewrite gq_sl; exact Ha.
    - rewrite !gq_addq_other by (intro E; inversion E; subst; destruct Hf as [X|[X|X]]; discriminate). reflexivity. }
  split.
  - intros x Hx. rewrite !P by tauto. rewrite (R1 x Hx). rewrite G. reflexivity.
  - rewrite P by tauto. rewrite R3, G. unfold qsumf. apply Qplus_comp; [reflexivity|]. apply qsum_map_ext. intros x _. rewrite P by tauto. reflexivity. Qed.

Lemma recv_ship_fold_is : forall l s0, NoDup l ->
  let s' := fold_left (recv_ship_one NW dis m) l s0 in
  (forall q, In q l -> gq s' (fcIS, m, q) = gq s0 (fcIS, m, q) + gq s' (fIS, m, q)) /\
  (forall q, ~ In q l -> gq s' (fcIS, m, q) = gq s0 (fcIS, m, q) /\ gq s' (fIS, m, q) = gq s0 (fIS, m, q)).
Proof. induction l as [|c r IH]; intros s0 ND; cbn [fold_left].
  - split; [intros x []|intros x _; split; reflexivity].
  - inversion ND as [|? ? Hc Hr]; subst. destruct (IH (recv_ship_one NW dis m s0 c) Hr) as (I1 & I2).
    set (s1 := recv_ship_one NW dis m s0 c) in *.
    assert (A1 : gq s1 (fcIS, m, c) = gq s0 (fcIS, m, c) + gq s1 (fIS, m, c)) by (unfold s1, recv_ship_one; gs; reflexivity).
    assert (A4 : forall y, y <> c -> gq s1 (fcIS, m, y) = gq s0 (fcIS, m, y) /\ gq s1 (fIS, m, y) = gq s0 (fIS, m, y)).
    { intros y Hy. unfold s1, recv_ship_one. rewrite gq_addq_other by (intro E; inversion E; subst; contradiction). gs.
      rewrite ?gq_sq_other by (intro E; inversion E; subst; contradiction). split; reflexivity. }
    destruct (I2 c Hc) as [C1 C2]. split.
    + intros y [E|Hy]; [subst y; rewrite C1, C2; exact A1|]. rewrite (I1 y Hy). destruct (A4 y) as [B1 _]; [intro E; subst; contradiction|]. rewrite B1. reflexivity.
    + intros y Hy. destruct (I2 y) as [D1 D2]; [intro X; apply Hy; right; exact X|]. destruct (A4 y) as [B1 B2]; [intro E; subst; apply Hy; left; reflexivity|].
      rewrite D1, D2, B1, B2. split; reflexivity. Qed.

Lemma serve_fold_os : forall l acc, NoDup l ->
  let s' := fst (fold_left (serve_one NW dis m) l acc) in
  (forall x, In x l -> gq s' (fcOS, m, x) = gq (fst acc) (fcOS, m, x) + gq s' (fOS, m, x)) /\
  (forall x, ~ In x l -> gq s' (fcOS, m, x) = gq (fst acc) (fcOS, m, x) /\ gq s' (fOS, m, x) = gq (fst acc) (fOS, m, x)) /\
  (forall f q, f = fIS \/ f = fcIS -> gq s' (f, m, q) = gq (fst acc) (f, m, q)).
Proof. induction l as [|c r IH]; intros [s0 oh] ND; cbn [fold_left fst].
  - split; [intros x []|]. split; [intros x _; split; reflexivity|intros; reflexivity].
  - inversion ND as [|? ? Hc Hr]; subst. destruct (IH (serve_one NW dis m (s0, oh) c) Hr) as (I1 & I2 & I3).
    set (a1 := serve_one NW dis m (s0, oh) c) in *. cbv zeta in I1, I2, I3.
    assert (E : forall k, gq (fst a1) k = gq (let o := serve_calc oh (gq s0 (fBO, m, c)) (gq s0 (fPIO, m, c)) (gq s0 (fODI, m, c)) (match c with Nd c' => disk NW dis c' dSP | Ext => false end) in
        addq (addq (addq (sq (sq (sq (addq (addq (addq (sq s0 (fOS, m, c) (o_os o)) (fDMFS, m, Ext) (o_dmfs o)) (fDMC, m, Ext) (o_dmfs o))
             (fIL, m, Ext) (- gq s0 (fPIO, m, c))) (fBO, m, c) (o_bo o)) (fODI, m, c) (o_odi o)) (fPIO, m, c) 0)
             (fPEND, m, Ext) (- gq s0 (fPIO, m, c))) (fSRV, m, Ext) (gq s0 (fPIO, m, c))) (fcOS, m, c) (o_os o)) k).
    { intros k. unfold a1, serve_one. destruct c; cbn [fst]; [reflexivity|apply gq_sl]. }
    cbv zeta in E.
    assert (A1 : gq (fst a1) (fcOS, m, c) = gq s0 (fcOS, m, c) + gq (fst a1) (fOS, m, c)) by (rewrite !E; gs; reflexivity).
    assert (A4 : forall y, y <> c -> gq (fst a1) (fcOS, m, y) = gq s0 (fcOS, m, y) /\ gq (fst a1) (fOS, m, y) = gq s0 (fOS, m, y)).
    { intros y Hy. rewrite !E. rewrite gq_addq_other by (intro X; inversion X; subst; contradiction). gs.
      rewrite ?gq_sq_other by (intro X; inversion X; subst; contradiction). split; reflexivity. }
    assert (A5 : forall f q, f = fIS \/ f = fcIS -> gq (fst a1) (f, m, q) = gq s0 (f, m, q)).
    { intros f q Hf. rewrite E. destruct Hf; subst f; gs; reflexivity. }
    destruct (I2 c Hc) as [C1 C2]. split; [|split].
    + intros y [X|Hy]; [subst y; rewrite C1, C2; exact A1|]. rewrite (I1 y Hy). destruct (A4 y) as [B1 _]; [intro X; subst; contradiction|]. rewrite B1. reflexivity.
    + intros y Hy. destruct (I2 y) as [D1 D2]; [intro X; apply Hy; right; exact X|]. destruct (A4 y) as [B1 B2]; [intro X; subst; apply Hy; left; reflexivity|].
      rewrite D1, D2, B1, B2. split; reflexivity.
    + intros f q Hf. rewrite I3 by exact Hf. apply A5. exact Hf. Qed.

Lemma ships_effect s : let e := ships_action NW dis s m in
  (forall x, In x (customers (C m)) -> gq e (fcOS, m, x) = gq s (fcOS, m, x) + gq e (fOS, m, x)) /\
  (forall q, In q (suppliers (C m)) -> gq e (fcIS, m, q) = gq s (fcIS, m, q) + gq e (fIS, m, q)).
Proof. cbv zeta. unfold ships_action.
  destruct (recv_ship_fold_is (suppliers (C m)) s (wf_sup NW WF m)) as (R1 & _). cbv zeta in R1.
  unfold recv_ship. set (s1 := fold_left (recv_ship_one NW dis m) (suppliers (C m)) s) in *.
  assert (R0 : forall x, gq s1 (fcOS, m, x) = gq s (fcOS, m, x)).
  { intros x. unfold s1. apply (fold_left_inv (fun a => gq a (fcOS, m, x) = gq s (fcOS, m, x))); [|reflexivity]. intros a q _ Ha. unfold recv_ship_one. gs. exact Ha. }
  assert (P : forall f x, f = fIS \/ f = fcIS \/ f = fcOS -> gq (fst (produce NW s1 m)) (f, m, x) = gq s1 (f, m, x)).
  { intros f x Hf. unfold produce. cbn [fst]. rewrite !gq_addq_other by (intro E; inversion E; subst; destruct Hf as [X|[X|X]]; discriminate).
    apply (fold_left_inv (fun a => gq a (f, m, x) = gq s1 (f, m, x))); [|reflexivity]. intros a q _ Ha.
    rewrite gq_addq_other by (intro E; inversion E; subst; destruct Hf as [X|[X|X]]; discriminate). exact Ha. }
  destruct (produce NW s1 m) as [s2 made]. cbn [fst] in P. unfold fill_rate, serve.
  set (s3 := sq s2 (fDMFS, m, Ext) 0).
  destruct (serve_fold_os (customers (C m)) (s3, qmax 0 (gq s (fIL, m, Ext)) + made) (wf_cus NW WF m)) as (S1 & _ & S3). cbv zeta in S1, S3. cbn [fst] in S1, S3.
  split.
  - intros x Hx. rewrite !gq_sq_other by discriminate. rewrite (S1 x Hx). unfold s3. rewrite gq_sq_other by discriminate. rewrite P by tauto. rewrite R0. reflexivity.
  - intros q Hq. rewrite !gq_sq_other by discriminate. rewrite !S3 by tauto. unfold s3. rewrite !gq_sq_other by discriminate. rewrite !P by tauto. apply R1. exact Hq. Qed.

(* ---- one period: all nodes, both phases ---- *)
Hypothesis Hm : In m (nodes NW).

Lemma fold_orders_other l s k : ~ In (node_of k) l -> gq (fold_left (orders_action NW dis dem) l s) k = gq s k.
Proof. revert s. induction l as [|a r IH]; intros s Hn; [reflexivity|]. cbn [fold_left]. rewrite IH by (intro X; apply Hn; right; exact X).
  apply orders_q_other. intro E. apply Hn. left. symmetry. exact E. Qed.
Lemma fold_ships_other l s k : ~ In (node_of k) l -> gq (fold_left (ships_action NW dis) l s) k = gq s k.
Proof. revert s. induction l as [|a r IH]; intros s Hn; [reflexivity|]. cbn [fold_left]. rewrite IH by (intro X; apply Hn; right; exact X).
  apply ships_q_other. intro E. apply Hn. left. symmetry. exact E. Qed.
Lemma fold_ships_frame f l s : f = fIO \/ f = fcIO \/ f = fDC \/ f = fOQ \/ f = fcOQ -> QF f s (fold_left (ships_action NW dis) l s).
Proof. intros Hf. apply fold_left_inv; [|apply QF_refl]. intros a x _ Ha n0 y. rewrite (ships_field_frame f a x Hf n0 y). apply Ha. Qed.
Lemma fold_orders_frame f l s : f = fOS \/ f = fcOS \/ f = fIS \/ f = fcIS -> QF f s (fold_left (orders_action NW dis dem) l s).
Proof. intros Hf. apply fold_left_inv; [|apply QF_refl]. intros a x _ Ha n0 y.
  rewrite (orders_field_frame f a x); try (destruct Hf as [E|[E|[E|E]]]; subst f; discriminate). apply Ha. Qed.

Theorem period_io s : let e := run_actions NW dis dem s in
  (forall x, In x (customers (C m)) -> gq e (fcIO, m, x) = gq s (fcIO, m, x) + gq e (fIO, m, x)) /\
  gq e (fDC, m, Ext) == gq s (fDC, m, Ext) + qsumf (fun x => gq e (fIO, m, x)) (customers (C m)).
Proof. cbv zeta. unfold run_actions.
  set (s1 := fold_left (orders_action NW dis dem) (order_visit NW) s).
  assert (SH : forall f x, f = fIO \/ f = fcIO \/ f = fDC -> gq (fold_left (ships_action NW dis) (ship_visit NW) s1) (f, m, x) = gq s1 (f, m, x)).
  { intros f x Hf. apply (fold_ships_frame f (ship_visit NW) s1). tauto. }
  destruct (in_split m (order_visit NW) (vo_ord NW VO m Hm)) as (l1 & l2 & E).
  pose proof (vo_nd_ord NW VO) as ND. rewrite E in ND. destruct (nodup_app_inv l1 (m :: l2) ND) as (_ & ND2 & D). inversion ND2 as [|? ? H2 _]; subst.
  assert (H1 : ~ In m l1) by (intro X; apply (D m X); left; reflexivity).
  assert (O : forall k, node_of k = m -> gq s1 k = gq (orders_action NW dis dem (fold_left (orders_action NW dis dem) l1 s) m) k /\ gq (fold_left (orders_action NW dis dem) l1 s) k = gq s k).
  { intros k Hk. unfold s1. rewrite E, fold_left_app. cbn [fold_left]. split; [apply fold_orders_other; rewrite Hk; exact H2|apply fold_orders_other; rewrite Hk; exact H1]. }
  destruct (orders_effect_io (fold_left (orders_action NW dis dem) l1 s)) as (E1 & E2). cbv zeta in E1, E2.
  split.
  - intros x Hx. rewrite !SH by tauto. rewrite (proj1 (O (fcIO, m, x) eq_refl)), (proj1 (O (fIO, m, x) eq_refl)). rewrite (E1 x Hx). rewrite (proj2 (O (fcIO, m, x) eq_refl)). reflexivity.
  - rewrite SH by tauto. rewrite (proj1 (O (fDC, m, Ext) eq_refl)). rewrite E2. rewrite (proj2 (O (fDC, m, Ext) eq_refl)).
    apply Qplus_comp; [reflexivity|]. unfold qsumf. apply qsum_map_ext. intros x _. rewrite SH by tauto. rewrite (proj1 (O (fIO, m, x) eq_refl)). reflexivity. Qed.

Theorem period_os_is s : let e := run_actions NW dis dem s in
  (forall x, In x (customers (C m)) -> gq e (fcOS, m, x) = gq s (fcOS, m, x) + gq e (fOS, m, x)) /\
  (forall q, In q (suppliers (C m)) -> gq e (fcIS, m, q) = gq s (fcIS, m, q) + gq e (fIS, m, q)).
Proof. cbv zeta. unfold run_actions.
  set (s1 := fold_left (orders_action NW dis dem) (order_visit NW) s).
  assert (OR : forall f x, f = fOS \/ f = fcOS \/ f = fIS \/ f = fcIS -> gq s1 (f, m, x) = gq s (f, m, x)).
  { intros f x Hf. apply (fold_orders_frame f (order_visit NW) s Hf). }
  destruct (in_split m (ship_visit NW) (vo_ship NW VO m Hm)) as (l1 & l2 & E).
  pose proof (vo_nd_ship NW VO) as ND. rewrite E in ND. destruct (nodup_app_inv l1 (m :: l2) ND) as (_ & ND2 & D). inversion ND2 as [|? ? H2 _]; subst.
  assert (H1 : ~ In m l1) by (intro X; apply (D m X); left; reflexivity).
  rewrite E, fold_left_app. cbn [fold_left].
  set (a := fold_left (ships_action NW dis) l1 s1).
  assert (A : forall k, node_of k = m -> gq a k = gq s1 k) by (intros k Hk; apply fold_ships_other; rewrite Hk; exact H1).
  assert (B : forall k, node_of k = m -> gq (fold_left (ships_action NW dis) l2 (ships_action NW dis a m)) k = gq (ships_action NW dis a m) k) by (intros k Hk; apply fold_ships_other; rewrite Hk; exact H2).
  destruct (ships_effect a) as (S1 & S2). cbv zeta in S1, S2.
  split.
  - intros x Hx. rewrite (B (fcOS, m, x) eq_refl), (B (fOS, m, x) eq_refl). rewrite (S1 x Hx). rewrite (A (fcOS, m, x) eq_refl). rewrite OR by tauto. reflexivity.
  - intros q Hq. rewrite (B (fcIS, m, q) eq_refl), (B (fIS, m, q) eq_refl). rewrite (S2 q Hq). rewrite (A (fcIS, m, q) eq_refl). rewrite OR by tauto. reflexivity. Qed.
End PerPeriod.

(* ---- consecutive records of a run ---- *)
Lemma next_period_frame NW dis f e : f <> fLOST -> f <> fIS -> f <> fOQ -> f <> fIO -> f <> fOS -> f <> fOQFG -> f <> fDMFS -> f <> fFR ->
  QF f e (next_period NW dis e).
Proof. intros. unfold next_period. apply fold_left_inv; [|apply QF_refl]. intros a m _ Ha. unfold next_node.
  repeat first [apply QF_sq; [congruence|]].
  apply fold_left_inv.
  { intros b x _ Hb. repeat first [apply QF_sl | apply QF_sq; [congruence|] | apply QF_addq; [congruence|] | assumption]. }
  apply fold_left_inv; [|exact Ha]. intros b x _ Hb. repeat first [apply QF_sq; [congruence|]]. destruct (disk NW dis m dTP); [exact Hb|apply QF_sl; exact Hb]. Qed.

Definition dflt_input : (N -> bool) * (N -> Q) := (fun _ => false, fun _ => 0).
Lemma run_from_nth_succ NW : forall inputs s t, (S t < length inputs)%nat ->
  nth (S t) (run_from NW s inputs) empty_st =
  run_actions NW (fst (nth (S t) inputs dflt_input)) (snd (nth (S t) inputs dflt_input))
    (next_period NW (fst (nth t inputs dflt_input)) (nth t (run_from NW s inputs) empty_st)).
Proof. induction inputs as [|[d0 m0] r IH]; intros s t Ht; cbn [length] in Ht; [lia|]. cbn [run_from].
  destruct t as [|t'].
  - destruct r as [|[d1 m1] r']; cbn [length] in Ht; [lia|]. cbn [run_from nth fst snd]. reflexivity.
  - change (nth (S (S t')) (run_actions NW d0 m0 s :: run_from NW (next_period NW d0 (run_actions NW d0 m0 s)) r) empty_st)
      with (nth (S t') (run_from NW (next_period NW d0 (run_actions NW d0 m0 s)) r) empty_st).
    rewrite IH by lia. reflexivity. Qed.

Section Consecutive.
Variable (NW : net) (inputs : list ((N -> bool) * (N -> Q))).
Notation C := (cfg NW).
Hypothesis WF : wf_net NW.
Hypothesis VO : visit_ok NW.
Variable t : nat.
Hypothesis Ht : (S t < length inputs)%nat.
Let a := nth t (run NW inputs) empty_st.
Let e := nth (S t) (run NW inputs) empty_st.

(* the cumulative counters advance from one record to the next by exactly the per-period state variables *)
Theorem counters_advance m : In m (nodes NW) ->
  (forall x, In x (customers (C m)) -> gq e (fcIO, m, x) = gq a (fcIO, m, x) + gq e (fIO, m, x)) /\
  (forall x, In x (customers (C m)) -> gq e (fcOS, m, x) = gq a (fcOS, m, x) + gq e (fOS, m, x)) /\
  (forall q, In q (suppliers (C m)) -> gq e (fcIS, m, q) = gq a (fcIS, m, q) + gq e (fIS, m, q)) /\
  gq e (fDC, m, Ext) == gq a (fDC, m, Ext) + qsumf (fun x => gq e (fIO, m, x)) (customers (C m)).
Proof. intros Hm. unfold e, a, run. rewrite run_from_nth_succ by exact Ht.
  set (dis := fst (nth (S t) inputs dflt_input)). set (dem := snd (nth (S t) inputs dflt_input)). set (dis' := fst (nth t inputs dflt_input)).
  set (a' := nth t (run_from NW (init_state NW) inputs) empty_st). set (s := next_period NW dis' a').
  destruct (period_io NW WF VO dis dem m Hm s) as (P1 & P2). destruct (period_os_is NW WF VO dis dem m Hm s) as (P3 & P4). cbv zeta in *.
  assert (F : forall f n x, f = fcIO \/ f = fcOS \/ f = fcIS \/ f = fDC -> gq s (f, n, x) = gq a' (f, n, x)).
  { intros f n x Hf. apply (next_period_frame NW dis' f a'); destruct Hf as [E|[E|[E|E]]]; subst f; discriminate. }
  repeat split.
  - intros x Hx. rewrite (P1 x Hx). rewrite F by tauto. reflexivity.
  - intros x Hx. rewrite (P3 x Hx). rewrite F by tauto. reflexivity.
  - intros q Hq. rewrite (P4 q Hq). rewrite F by tauto. reflexivity.
  - rewrite P2. rewrite F by tauto. reflexivity. Qed.
End Consecutive.
