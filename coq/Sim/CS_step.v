(* One period of the local base-stock serial network, seen from one stage (start state s, end-of-period record e,
   next start state s'), for every state satisfying the serial invariant J of Sim/Serial.v and the general invariants ALL:
     every stage receives an inbound order equal to the period's external demand dd,
     IL_n(e) = IL_n(s) + (inbound shipment received by n in the period) - dd,
     a stage ships  old backorders + dd - new backorders,  backorders = negative part of the inventory level,
     the inbound pipeline of a stage is a delay line fed with the supplier's shipment (with dd at the external supplier). *)
From Coq Require Import Permutation.
From SV Require Import Sim.Model Sim.StateLemmas Sim.Inv_base Sim.Inv_book Sim.Inv_pipe Sim.Inv_node Sim.Inv_rm Sim.Inv_init Sim.Inv_run
  Sim.Inv_bound Sim.Single Sim.Policy_thms Sim.Delay Sim.PerPeriod Sim.Obs Sim.Wfb Sim.Serial Sim.ShipDelay.
From SV Require Import Sim.CS Sim.CS_math Sim.CS_graph.

(* ---- windows: the pipeline at the start of period t holds what arrives in t, t+1, ..., t+L-1 ---- *)
Lemma leq_tl a b : leq a b -> leq (tl a) (tl b).
Proof. intros H. inversion H; subst; cbn [tl]; [constructor|assumption]. Qed.
Lemma leq_map_ext (f g : nat -> Q) l : (forall x, In x l -> f x == g x) -> leq (map f l) (map g l).
Proof. induction l as [|a r IH]; intros H; cbn [map]; constructor; [apply H; left; reflexivity|apply IH; intros x Hx; apply H; right; exact Hx]. Qed.
Lemma window_next (r : nat -> Q) t L sp f : leq sp (shift_sp (0 :: map r (seq t L))) -> f == r (t + L)%nat ->
  leq (shift_sp (zero0 (add_at L f sp))) (shift_sp (0 :: map r (seq (S t) L))) /\ hd0 (add_at L f sp) == r t.
Proof. intros Hsp Hf.
  destruct (pipeline_step L (map r (seq t L)) f sp ltac:(rewrite map_length, seq_length; reflexivity) Hsp) as [P1 P2].
  change (0 + L)%nat with L in P1, P2.
  assert (W : leq (map r (seq t L) ++ [f]) (map r (seq t (S L)))).
  { rewrite seq_snoc, map_app. apply leq_app; [apply leq_refl|]. cbn [map]. constructor; [exact Hf|constructor]. }
  split.
  - apply leq_shift_sp. apply (leq_trans _ _ _ P1). constructor; [reflexivity|]. unfold nextw.
    apply leq_tl in W. cbn [seq map tl] in W. exact W.
  - rewrite P2. rewrite (leq_hd0 _ _ W). cbn [seq map hd0]. reflexivity. Qed.

Section Step.
Variables (B : net) (lv : N -> Q) (ch : list N).
Hypothesis HndN : NoDup (nodes B).
Hypothesis Hsame : forall n, In n (nodes B) <-> In n ch.
Hypothesis Hnd : NoDup ch.
Hypothesis Hser : serial_cfg B ch.
Hypothesis Hin : forall n, In n ch -> olt (cfg B n) = 0%nat /\ cap (cfg B n) = None /\ init_il (cfg B n) = Some (lv n)
                                     /\ init_orders (cfg B n) = 0 /\ init_ships (cfg B n) = 0.
Hypothesis Hout : forall n, ~ In n ch -> cfg B n = dflt_cfg.
Hypothesis Hlv : forall n, 0 <= lv n.
Hypothesis Hlv0 : forall n, ~ In n ch -> lv n == 0.
Hypothesis Hnonempty : ch <> [].
Notation NW := (repol B (fun n => BS (lv n))).
Notation C := (cfg NW).

Definition WFs : wf_net NW := wfNW B lv ch Hser Hin Hout Hlv.
Definition WGs : wf_graph NW := wgNW B lv ch Hser Hout.
Definition VOs : visit_ok NW := voNW B lv ch HndN Hsame Hnd Hser Hout Hnonempty.
Definition WOs := woNW B lv ch Hsame Hout Hlv0.

Definition Inv (s : st) : Prop := J B lv ch s /\ ALL NW s.

Lemma Inv_init : Inv (init_state NW).
Proof. split; [apply J_init; assumption|apply ALL_init; [exact WFs|exact WGs|exact WOs]]. Qed.

Lemma stage_facts pre n post : ch = pre ++ n :: post ->
  In n ch /\ In n (nodes NW) /\ suppliers (C n) = [sup_of pre] /\ customers (C n) = [cus_of post].
Proof. intros E. assert (Hn : In n ch) by (rewrite E; apply in_or_app; right; left; reflexivity).
  split; [exact Hn|]. split; [cbn [nodes repol]; apply Hsame; exact Hn|]. apply (sup_cusNW B ch Hser _ pre n post E). Qed.

Section Period.
Variables (dis : N -> bool) (dem : N -> Q).
Hypothesis Hdis : forall n, dis n = false.
Hypothesis Hdem : forall n, 0 <= dem n.
Hypothesis Hbig : dem (sink ch) <= BIG.
Variable s : st.
Hypothesis HI : Inv s.
Notation dd := (dem (sink ch)).
Notation e := (run_actions NW dis dem s).
Notation s' := (next_period NW dis (run_actions NW dis dem s)).
Notation s1 := (fold_left (orders_action NW dis dem) (List.rev ch) s).

Lemma nodisk n k : disk NW dis n k = false.
Proof. unfold disk. rewrite Hdis. reflexivity. Qed.

Lemma e_unfold : e = fold_left (ships_action NW dis) ch s1.
Proof. assert (X : exists h t, ch = h :: t) by (destruct ch as [|h t]; [contradiction|exists h, t; reflexivity]).
  destruct X as (h & t & Eh). destruct (visits_chain NW ch HndN Hsame Hnd Hser h t Eh) as [V1 V2].
  unfold run_actions. rewrite V1, V2. reflexivity. Qed.

Lemma Inv_next : Inv s'.
Proof. destruct HI as [HJ HA]. split.
  - apply (proj2 (Serial.period_step B lv ch HndN Hsame Hnd Hser Hin Hout Hlv Hnonempty dis dem Hdis Hdem Hbig s HJ)).
  - apply ALL_next_period. apply ALL_run_actions; [exact WFs|exact WGs|exact Hdem|exact HA]. Qed.

Lemma ALL_e : ALL NW e.
Proof. apply ALL_run_actions; [exact WFs|exact WGs|exact Hdem|apply HI]. Qed.

(* per-stage fields that are 0 at s and at e *)
Lemma zeros pre n post : ch = pre ++ n :: post ->
  (gq s (fRM, n, sup_of pre) == 0 /\ gq s (fIDI, n, sup_of pre) == 0 /\ gq s (fPIO, n, cus_of post) == 0 /\ gq s (fODI, n, cus_of post) == 0) /\
  (gq e (fRM, n, sup_of pre) == 0 /\ gq e (fIDI, n, sup_of pre) == 0 /\ gq e (fPIO, n, cus_of post) == 0 /\ gq e (fODI, n, cus_of post) == 0).
Proof. intros E. split.
  - destruct (j_node B lv ch s (proj1 HI) pre n post E) as (A1 & A2 & _ & A4 & A5). repeat split; assumption.
  - destruct (j_node B lv ch s' (proj1 Inv_next) pre n post E) as (A1 & A2 & _ & A4 & A5).
    rewrite (next_period_frame NW dis fRM e) in A1 by discriminate. rewrite (next_period_frame NW dis fIDI e) in A2 by discriminate.
    rewrite (next_period_frame NW dis fPIO e) in A4 by discriminate. rewrite (next_period_frame NW dis fODI e) in A5 by discriminate.
    repeat split; assumption. Qed.

(* every stage receives the period's external demand as its inbound order *)
Lemma io_dd pre n post : ch = pre ++ n :: post -> gq e (fIO, n, cus_of post) == dd.
Proof. intros E. destruct HI as [HJ HA]. destruct (stage_facts pre n post E) as (Hn & Hnn & Hs & Hc).
  destruct (orders_phase B lv ch HndN Hsame Hnd Hser Hin dis dem Hdis Hdem Hbig s HJ ch [] eq_refl) as [OIc _].
  assert (BK1 : BK NW s1).
  { apply (fold_left_inv (BK NW)); [intros a x _ Ha; apply BK_orders_action; exact Ha|apply HA]. }
  pose proof (bk_order NW s1 BK1 n (cus_of post)) as E1. pose proof (bk_order NW s (a_bk NW s HA) n (cus_of post)) as E0.
  rewrite (oi_f B ch dem s s1 ch OIc fcOS) in E1 by discriminate.
  rewrite (oi_f B ch dem s s1 ch OIc fBO) in E1 by discriminate.
  rewrite (oi_f B ch dem s s1 ch OIc fODI) in E1 by discriminate.
  destruct (oi_done B ch dem s s1 ch OIc pre n post E Hn) as (_ & D2 & _). rewrite D2 in E1.
  pose proof (fold_ships_frame NW dis fcIO ch s1 (or_intror (or_introl eq_refl)) n (cus_of post)) as F. rewrite <- e_unfold in F.
  rewrite <- F in E1.
  destruct (period_io NW WFs VOs dis dem n Hnn s) as (P1 & _). cbv zeta in P1.
  rewrite (P1 (cus_of post)) in E1 by (rewrite Hc; left; reflexivity). lra. Qed.

(* inventory level of a stage: + receipt - demand *)
Lemma il_step pre n post : ch = pre ++ n :: post ->
  gq e (fIL, n, Ext) == gq s (fIL, n, Ext) + gq e (fIS, n, sup_of pre) - dd.
Proof. intros E. destruct HI as [HJ HA]. pose proof ALL_e as HAe. destruct (stage_facts pre n post E) as (Hn & Hnn & Hs & Hc).
  destruct (zeros pre n post E) as ((Z1 & Z2 & Z3 & Z4) & (Y1 & Y2 & Y3 & Y4)).
  pose proof (bk_il NW s (a_bk NW s HA) n) as A1. pose proof (bk_il NW e (a_bk NW e HAe) n) as B1.
  pose proof (bk_dc NW s (a_bk NW s HA) n) as A2. pose proof (bk_dc NW e (a_bk NW e HAe) n) as B2.
  pose proof (a_rm NW s HA n (sup_of pre) ltac:(rewrite Hs; left; reflexivity)) as A3.
  pose proof (a_rm NW e HAe n (sup_of pre) ltac:(rewrite Hs; left; reflexivity)) as B3.
  pose proof (nd_pend NW s (a_nd NW s HA) n) as A4. pose proof (nd_pend NW e (a_nd NW e HAe) n) as B4.
  rewrite Hc in A4, B4. unfold SF, qsumf in A4, B4. cbn [map qsum] in A4, B4.
  destruct (period_io NW WFs VOs dis dem n Hnn s) as (_ & P2). cbv zeta in P2. rewrite Hc in P2. unfold qsumf in P2. cbn [map qsum] in P2.
  destruct (period_os_is NW WFs VOs dis dem n Hnn s) as (_ & P4). cbv zeta in P4.
  pose proof (P4 (sup_of pre) ltac:(rewrite Hs; left; reflexivity)) as P5.
  pose proof (io_dd pre n post E) as IO. rewrite P5 in B3. lra. Qed.

(* what a stage ships to its successor: old backorders + demand - new backorders; backorders = (IL)^- *)
Lemma os_step pre p d post : ch = pre ++ p :: d :: post ->
  gq e (fOS, p, Nd d) == negp (gq s (fIL, p, Ext)) + dd - negp (gq e (fIL, p, Ext)).
Proof. intros E. destruct HI as [HJ HA]. pose proof ALL_e as HAe. destruct (stage_facts pre p (d :: post) E) as (Hn & Hnn & Hs & Hc). cbn [cus_of] in Hc.
  destruct (zeros pre p (d :: post) E) as ((Z1 & Z2 & Z3 & Z4) & (Y1 & Y2 & Y3 & Y4)). cbn [cus_of] in Z3, Z4, Y3, Y4.
  pose proof (bk_order NW s (a_bk NW s HA) p (Nd d)) as A1. pose proof (bk_order NW e (a_bk NW e HAe) p (Nd d)) as B1.
  pose proof (nd_bo NW s (a_nd NW s HA) p) as A2. pose proof (nd_bo NW e (a_nd NW e HAe) p) as B2.
  rewrite Hc in A2, B2. unfold SF, qsumf in A2, B2. cbn [map qsum] in A2, B2.
  destruct (period_io NW WFs VOs dis dem p Hnn s) as (P1 & _). cbv zeta in P1.
  destruct (period_os_is NW WFs VOs dis dem p Hnn s) as (P3 & _). cbv zeta in P3.
  rewrite (P1 (Nd d)) in B1 by (rewrite Hc; left; reflexivity). rewrite (P3 (Nd d)) in B1 by (rewrite Hc; left; reflexivity).
  pose proof (io_dd pre p (d :: post) E) as IO. cbn [cus_of] in IO. unfold negp. lra. Qed.

(* the inbound pipeline of a stage is a delay line: [feed] enters at slot L, slot 0 is received *)
Definition pipe_eff (n : N) (q : nb) (feed : Q) : Prop :=
  let pipe := add_at (slt (cfg B n)) feed (gl s (fSP, n, q)) in
  leq (gl e (fSP, n, q)) (zero0 pipe) /\ gq e (fIS, n, q) == hd0 pipe.

Lemma pipe_edge pre p d post : ch = pre ++ p :: d :: post -> pipe_eff d (Nd p) (gq e (fOS, p, Nd d)).
Proof. intros E. assert (E2 : ch = (pre ++ [p]) ++ d :: post) by (rewrite snoc_cons; exact E).
  assert (Hp : In p (preds (C d))) by (rewrite (proj1 (edge_preds B lv ch Hser pre p d post E)); left; reflexivity).
  pose proof (run_actions_edge_nd NW WFs WGs VOs WOs p d Hp dis dem s) as R. cbv zeta in R. rewrite nodisk in R.
  unfold EK, recv_eff in R. cbn [fst snd] in R. injection R as R1 R2 R3.
  destruct (zeros (pre ++ [p]) d post E2) as ((_ & Z2 & _) & _). rewrite sup_of_snoc in Z2.
  unfold pipe_eff. cbv zeta. cbn [cfg repol setpol slt] in R1, R2. split; [rewrite R1; apply leq_refl|rewrite R2, Z2; lra]. Qed.

Lemma pipe_head n post : ch = n :: post -> pipe_eff n Ext dd.
Proof. intros E. assert (E0 : ch = [] ++ n :: post) by exact E. destruct HI as [HJ HA].
  destruct (stage_facts [] n post E0) as (Hn & Hnn & Hs & Hc). cbn [sup_of List.rev] in Hs.
  destruct (orders_phase B lv ch HndN Hsame Hnd Hser Hin dis dem Hdis Hdem Hbig s HJ ch [] eq_refl) as [OIc _].
  destruct (oi_done B ch dem s s1 ch OIc [] n post E0 Hn) as (_ & _ & D3). specialize (D3 eq_refl).
  pose proof Hnd as Hnd'. rewrite E in Hnd'. inversion Hnd' as [|? ? Hnp _]; subst.
  assert (F : EK n Ext e = recv_eff false (EK n Ext s1)).
  { rewrite e_unfold. rewrite E at 1. cbn [fold_left].
    rewrite (ships_fold_frame NW n Ext dis post _ Hnp).
    - rewrite (ships_n_effect NW WFs n Ext ltac:(rewrite Hs; left; reflexivity) ltac:(discriminate) dis). rewrite nodisk. reflexivity.
    - intro X. apply in_map_iff in X. destruct X as (y & Ey & _). discriminate. }
  unfold EK, recv_eff in F. cbn [fst snd] in F. injection F as F1 F2 F3.
  destruct (zeros [] n post E0) as ((_ & Z2 & _) & _). cbn [sup_of List.rev] in Z2.
  rewrite (oi_f B ch dem s s1 ch OIc fIDI) in F2 by discriminate.
  unfold pipe_eff. cbv zeta. split.
  - rewrite F1. apply leq_zero0. exact D3.
  - rewrite F2, Z2. rewrite (leq_hd0 _ _ D3). lra. Qed.

(* one period of a stage whose inbound pipeline holds the future receipts r t, r (t+1), ... *)
Lemma stage_step pre n post (r : nat -> Q) (t : nat) (feed : Q) : ch = pre ++ n :: post ->
  pipe_eff n (sup_of pre) feed -> feed == r (t + slt (cfg B n))%nat ->
  leq (gl s (fSP, n, sup_of pre)) (shift_sp (0 :: map r (seq t (slt (cfg B n))))) ->
  gq e (fIL, n, Ext) == gq s (fIL, n, Ext) + r t - dd /\
  gq s' (fIL, n, Ext) = gq e (fIL, n, Ext) /\
  leq (gl s' (fSP, n, sup_of pre)) (shift_sp (0 :: map r (seq (S t) (slt (cfg B n))))).
Proof. intros E [P1 P2] Hf Hw. cbv zeta in P1, P2.
  destruct (window_next r t (slt (cfg B n)) (gl s (fSP, n, sup_of pre)) feed Hw Hf) as [W1 W2].
  split; [rewrite (il_step pre n post E), P2, W2; reflexivity|].
  split; [apply (next_period_frame NW dis fIL e); discriminate|].
  rewrite (proj1 (next_eff B lv ch HndN Hsame Hser dis Hdis e pre n post E)).
  apply (leq_trans _ _ _ (leq_shift_sp _ _ P1)). exact W1. Qed.
End Period.
End Step.
