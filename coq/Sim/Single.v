(* C15 (logic part): a single stage under a base-stock policy, shipment lead time L, no order lead time, external
   supplier, started at its base-stock level, undisrupted. Pathwise, for EVERY demand sequence: the end-of-period
   inventory level is the base-stock level minus the demand of the last L periods (orders are placed after the
   period's demand is seen, so the exposure is L, not L+1), the on-order quantity is that lead-time demand, and the
   period cost is h (S - D)^+ + p (D - S)^+ : the newsvendor cost function evaluated at the lead-time demand. *)
From SV Require Import Sim.Model Sim.StateLemmas Sim.Inv_base Sim.Inv_init.

Definition leq (a b : list Q) : Prop := Forall2 Qeq a b.
Lemma leq_refl a : leq a a.  Proof. induction a; constructor; [reflexivity|assumption]. Qed.
Lemma leq_trans a b c : leq a b -> leq b c -> leq a c.
Proof. intros H. revert c. induction H as [|x y r s Hxy Hrs IH]; intros c Hc; inversion Hc as [|y' z s' t Hyz Hst]; subst; constructor.
  - rewrite Hxy. exact Hyz.
  - apply IH. exact Hst. Qed.
Lemma leq_app a b c d : leq a b -> leq c d -> leq (a ++ c) (b ++ d).
Proof. intros H1 H2. induction H1; cbn [app]; [exact H2|constructor; assumption]. Qed.
Lemma leq_qsum a b : leq a b -> qsum a == qsum b.
Proof. induction 1; cbn [qsum]; lra. Qed.
Lemma leq_length a b : leq a b -> length a = length b.
Proof. induction 1; cbn [length]; congruence. Qed.
Lemma leq_hd0 a b : leq a b -> hd0 a == hd0 b.
Proof. intros H; inversion H; subst; cbn [hd0]; lra. Qed.
Lemma leq_zero0 a b : leq a b -> leq (zero0 a) (zero0 b).
Proof. intros H; inversion H; subst; cbn [zero0]; constructor; [reflexivity|assumption]. Qed.
Lemma leq_shift_sp a b : leq a b -> leq (shift_sp a) (shift_sp b).
Proof. intros H. inversion H as [|x y r s Hxy Hrs]; subst; [constructor|]. inversion Hrs as [|x2 y2 r2 s2 H2 Hr2]; subst; cbn [shift_sp].
  - constructor; [exact Hxy|constructor].
  - constructor; [lra|]. apply leq_app; [exact Hr2|apply leq_refl]. Qed.
Lemma leq_add_at i v v' a b : v == v' -> leq a b -> leq (add_at i v a) (add_at i v' b).
Proof. intros Hv H. revert i. induction H as [|x y r s Hxy Hrs IH]; intros [|i]; cbn [add_at].
  - constructor.
  - constructor.
  - constructor; [rewrite Hxy, Hv; reflexivity|exact Hrs].
  - constructor; [exact Hxy|apply IH]. Qed.
(* placing at the last slot *)
Lemma add_at_last l v : add_at (length l) v (l ++ [0]) = l ++ [0 + v].
Proof. induction l as [|a r IH]; cbn [length app add_at]; [reflexivity|]. rewrite IH. reflexivity. Qed.

Section Single.
Variables (S h p : Q) (L : nat).
Hypothesis S_nonneg : 0 <= S.
Definition c1 : ncfg :=
  {| preds := []; succs := []; ext_sup := true; has_dem := true; slt := L; olt := 0; pol := BS S; cap := None; init_il := None;
     hc := h; pc := p; ith := None; rev := 0; dtype := None; init_orders := 0; init_ships := 0 |}.
Definition NW1 : net := {| nodes := [1%N]; cfg := fun _ => c1 |}.
Notation n1 := 1%N.

(* start-of-period invariant; w = the last L orders, oldest first *)
Record J (s : st) (w : list Q) : Prop := {
  j_len : length w = L;
  j_nn : Forall (fun x => 0 <= x) w;
  j_il : gq s (fIL, n1, Ext) + qsum w == S;
  j_oo : gq s (fOO, n1, Ext) == qsum w;
  j_sp : leq (gl s (fSP, n1, Ext)) (shift_sp (0 :: w));
  j_rm : gq s (fRM, n1, Ext) == 0;
  j_idi : gq s (fIDI, n1, Ext) == 0;
  j_pio : gq s (fPIO, n1, Ext) == 0;
  j_odi : gq s (fODI, n1, Ext) == 0;
  j_bo : gq s (fBO, n1, Ext) == qmax 0 (- gq s (fIL, n1, Ext)) }.

Lemma visits : order_visit NW1 = [n1] /\ ship_visit NW1 = [n1].
Proof. split; reflexivity. Qed.

Definition nextw (w : list Q) (d : Q) : list Q := tl (w ++ [d]).

(* the pipeline at the start of a period, after the order d has been placed in its last slot and slot 0 has been
   received: 0 followed by the new window *)
Lemma pipeline_step w d sp : length w = L -> leq sp (shift_sp (0 :: w)) ->
  leq (zero0 (add_at (0 + L) d sp)) (0 :: nextw w d) /\ hd0 (add_at (0 + L) d sp) == hd0 (w ++ [d]).
Proof. intros Hl Hsp. cbn [Nat.add]. unfold nextw.
  destruct w as [|b r]; cbn [length] in Hl.
  - subst L. cbn [shift_sp app tl hd0] in *. inversion Hsp as [|x y r0 s0 Hxy Hr]; subst. inversion Hr; subst. cbn [add_at zero0 hd0].
    split; [constructor; [reflexivity|constructor]|lra].
  - cbn [shift_sp] in Hsp. cbn [app tl hd0].
    assert (E : leq (add_at L d sp) (add_at L d ((0 + b) :: r ++ [0]))) by (apply leq_add_at; [reflexivity|exact Hsp]).
    assert (E2 : add_at L d ((0 + b) :: r ++ [0]) = (0 + b) :: r ++ [0 + d]).
    { rewrite <- Hl. cbn [add_at]. f_equal. apply add_at_last. }
    rewrite E2 in E. split.
    + apply (leq_trans _ _ _ (leq_zero0 _ _ E)). cbn [zero0]. constructor; [reflexivity|]. apply leq_app; [apply leq_refl|constructor; [lra|constructor]].
    + rewrite (leq_hd0 _ _ E). cbn [hd0]. lra. Qed.

Variables (dis : N -> bool) (dem : N -> Q).
Lemma no_disruption k : disk NW1 dis n1 k = false.
Proof. unfold disk. cbn. destruct k; apply andb_false_r. Qed.

Lemma orders_eff s w : J s w -> 0 <= dem n1 -> dem n1 <= BIG ->
  let s1 := orders_action NW1 dis dem s n1 in
  gq s1 (fIL, n1, Ext) = gq s (fIL, n1, Ext) /\ gq s1 (fRM, n1, Ext) = gq s (fRM, n1, Ext) /\ gq s1 (fIDI, n1, Ext) = gq s (fIDI, n1, Ext) /\
  gq s1 (fODI, n1, Ext) = gq s (fODI, n1, Ext) /\ gq s1 (fBO, n1, Ext) = gq s (fBO, n1, Ext) /\
  gq s1 (fPIO, n1, Ext) = gq s (fPIO, n1, Ext) + dem n1 /\
  gq s1 (fOO, n1, Ext) == gq s (fOO, n1, Ext) + dem n1 /\
  leq (gl s1 (fSP, n1, Ext)) (add_at (0 + L) (dem n1) (gl s (fSP, n1, Ext))).
Proof. intros HJ Hd Hb. cbv zeta. unfold orders_action, place_order. rewrite no_disruption.
  unfold recv_orders, gen_demand. cbn [cfg NW1 c1 has_dem customers succs map app fold_left suppliers preds ext_sup].
  set (s2 := recv_order_one n1 (sl s (fOP, n1, Ext) [dem n1]) Ext).
  assert (F2 : forall f, f <> fIO -> f <> fDC -> f <> fPIO -> f <> fPEND -> f <> fcIO -> gq s2 (f, n1, Ext) = gq s (f, n1, Ext)).
  { intros f F1 F2 F3 F4 F5. unfold s2, recv_order_one. rewrite !gq_addq_other by (intro E; inversion E; subst; contradiction).
    rewrite gq_sl, gq_sq_other by (intro E; inversion E; subst; contradiction). apply gq_sl. }
  assert (X : hd0 (gl (sl s (fOP, n1, Ext) [dem n1]) (fOP, n1, Ext)) = dem n1) by (rewrite gl_sl_same; reflexivity).
  assert (Fio : gq s2 (fIO, n1, Ext) = dem n1) by (unfold s2, recv_order_one; gs; reflexivity).
  assert (Fpio : gq s2 (fPIO, n1, Ext) = gq s (fPIO, n1, Ext) + dem n1) by (unfold s2, recv_order_one; gs; reflexivity).
  assert (Gsp : gl s2 (fSP, n1, Ext) = gl s (fSP, n1, Ext)) by (unfold s2, recv_order_one; gs; rewrite ?gl_sl_other by discriminate; gs; rewrite ?gl_sl_other by discriminate; reflexivity).
  set (oq := order_qty NW1 s2 n1).
  assert (Hoq : oq == dem n1).
  { unfold oq, order_qty, obs_ip, local_ip. rewrite Qred_correct.
    cbn [cfg NW1 c1 pol customers suppliers succs preds has_dem ext_sup map app qmin_list]. unfold qsumf. cbn [map qsum].
    rewrite !F2 by discriminate. rewrite Fio. unfold capped. cbn [cap c1 rule].
    destruct HJ as [_ _ Jil Joo _ Jrm Jidi _ _ _]. qcases; lra. }
  unfold place_one. cbn [cfg NW1 c1 olt slt].
  repeat split; gs; rewrite ?F2 by discriminate; try reflexivity.
  - exact Fpio.
  - rewrite Hoq. reflexivity.
  - rewrite Gsp. apply leq_add_at; [exact Hoq|apply leq_refl].
Qed.

Lemma ships_eff s1 : 0 <= gq s1 (fBO, n1, Ext) -> 0 <= gq s1 (fPIO, n1, Ext) -> 0 <= gq s1 (fODI, n1, Ext) ->
  0 <= gq s1 (fRM, n1, Ext) -> 0 <= gq s1 (fIDI, n1, Ext) -> 0 <= hd0 (gl s1 (fSP, n1, Ext)) ->
  let e := ships_action NW1 dis s1 n1 in
  let rtr := hd0 (gl s1 (fSP, n1, Ext)) in
  let made := gq s1 (fRM, n1, Ext) + (rtr + gq s1 (fIDI, n1, Ext)) in
  gq e (fIL, n1, Ext) == gq s1 (fIL, n1, Ext) + made - gq s1 (fPIO, n1, Ext) /\
  gq e (fOO, n1, Ext) == gq s1 (fOO, n1, Ext) - rtr /\
  gl e (fSP, n1, Ext) = zero0 (gl s1 (fSP, n1, Ext)) /\
  gq e (fRM, n1, Ext) == 0 /\ gq e (fIDI, n1, Ext) = 0 /\ gq e (fPIO, n1, Ext) = 0 /\
  (gq s1 (fODI, n1, Ext) == 0 -> gq e (fODI, n1, Ext) == 0) /\
  (gq s1 (fBO, n1, Ext) == qmax 0 (- gq s1 (fIL, n1, Ext)) -> gq s1 (fODI, n1, Ext) == 0 -> gq e (fBO, n1, Ext) == qmax 0 (- gq e (fIL, n1, Ext))).
Proof. intros Hb Hi Hd Hr Hidi Hrtr. cbv zeta. unfold ships_action, recv_ship.
  cbn [cfg NW1 c1 suppliers preds ext_sup map app fold_left].
  set (il0 := gq s1 (fIL, n1, Ext)).
  set (sa := recv_ship_one NW1 dis n1 s1 Ext).
  set (rtr := hd0 (gl s1 (fSP, n1, Ext))) in *.
  assert (A_rm : gq sa (fRM, n1, Ext) = gq s1 (fRM, n1, Ext) + (rtr + gq s1 (fIDI, n1, Ext))).
  { unfold sa, recv_ship_one. rewrite no_disruption. gs. reflexivity. }
  assert (A_oo : gq sa (fOO, n1, Ext) = gq s1 (fOO, n1, Ext) + - rtr) by (unfold sa, recv_ship_one; rewrite no_disruption; gs; reflexivity).
  assert (A_idi : gq sa (fIDI, n1, Ext) = 0) by (unfold sa, recv_ship_one; rewrite no_disruption; gs; reflexivity).
  assert (A_sp : gl sa (fSP, n1, Ext) = zero0 (gl s1 (fSP, n1, Ext))) by (unfold sa, recv_ship_one; rewrite no_disruption; gs; reflexivity).
  assert (A_fr : forall f, f <> fIS -> f <> fRM -> f <> fOO -> f <> fIDI -> f <> fcIS -> gq sa (f, n1, Ext) = gq s1 (f, n1, Ext)).
  { intros f F1 F2 F3 F4 F5. unfold sa, recv_ship_one. rewrite no_disruption.
    rewrite gq_addq_other, gq_sq_other, !gq_addq_other by (intro E; inversion E; subst; contradiction). rewrite gq_sl. apply gq_sq_other. intro E; inversion E; subst; contradiction. }
  unfold produce. cbn [cfg NW1 c1 suppliers preds ext_sup map app fold_left qmin_list].
  set (made := gq sa (fRM, n1, Ext)).
  set (sb := addq (addq (addq (addq sa (fRM, n1, Ext) (- made)) (fIL, n1, Ext) made) (fPFG, n1, Ext) (- made)) (fCP, n1, Ext) made).
  unfold serve. cbn [cfg NW1 c1 customers succs has_dem map app fold_left].
  set (sc := sq sb (fDMFS, n1, Ext) 0).
  assert (C_il : gq sc (fIL, n1, Ext) = il0 + made) by (unfold sc, sb; gs; rewrite A_fr by discriminate; reflexivity).
  assert (C_rm : gq sc (fRM, n1, Ext) = made + - made) by (unfold sc, sb; gs; reflexivity).
  assert (C_fr : forall f, f <> fRM -> f <> fIL -> f <> fPFG -> f <> fCP -> f <> fDMFS -> gq sc (f, n1, Ext) = gq sa (f, n1, Ext)).
  { intros f F1 F2 F3 F4 F5. unfold sc, sb. rewrite gq_sq_other, !gq_addq_other by (intro E; inversion E; subst; contradiction). reflexivity. }
  assert (C_sp : gl sc (fSP, n1, Ext) = gl sa (fSP, n1, Ext)) by (unfold sc, sb; gs; reflexivity).
  unfold serve_one. set (o := serve_calc _ _ _ _ _). cbn [fst]. unfold fill_rate.
  assert (Pio : gq sc (fPIO, n1, Ext) = gq s1 (fPIO, n1, Ext)) by (rewrite C_fr, A_fr by discriminate; reflexivity).
  assert (Bo : gq sc (fBO, n1, Ext) = gq s1 (fBO, n1, Ext)) by (rewrite C_fr, A_fr by discriminate; reflexivity).
  assert (Odi : gq sc (fODI, n1, Ext) = gq s1 (fODI, n1, Ext)) by (rewrite C_fr, A_fr by discriminate; reflexivity).
  assert (Hmade : made = gq s1 (fRM, n1, Ext) + (rtr + gq s1 (fIDI, n1, Ext))) by exact A_rm.
  assert (Hoh : 0 <= qmax 0 il0 + made) by (rewrite Hmade; qcases; lra).
  assert (Hb' : 0 <= gq sc (fBO, n1, Ext)) by (rewrite Bo; exact Hb).
  assert (Hi' : 0 <= gq sc (fPIO, n1, Ext)) by (rewrite Pio; exact Hi).
  assert (Hd' : 0 <= gq sc (fODI, n1, Ext)) by (rewrite Odi; exact Hd).
  pose proof (serve_calc_spec (qmax 0 il0 + made) (gq sc (fBO, n1, Ext)) (gq sc (fPIO, n1, Ext)) (gq sc (fODI, n1, Ext)) false Hoh Hb' Hi' Hd') as SP.
  cbv zeta in SP. fold o in SP.
  destruct SP as (_ & _ & Sbo & _ & _ & _ & _ & _ & _ & _ & _ & Snsp). destruct (Snsp eq_refl) as [Sos Sodi].
  rewrite Bo, Pio in Sbo.
  split; [gs; rewrite C_il, Pio, Hmade; lra|].
  split; [gs; rewrite C_fr by discriminate; rewrite A_oo; lra|].
  split; [gs; rewrite C_sp; exact A_sp|].
  split; [gs; rewrite C_rm; lra|].
  split; [gs; rewrite C_fr by discriminate; exact A_idi|].
  split; [gs; reflexivity|].
  split; [intros Z; gs; exact Sodi|].
  intros HB Z. gs. rewrite C_il, Pio. rewrite Sbo. rewrite HB. fold il0. rewrite Hmade in *. clear - Hi Hr Hidi Hrtr Hb. qcases; lra.
Qed.

Lemma qsum_tl l : qsum (tl l) == qsum l - hd0 l.
Proof. destruct l; cbn [tl qsum hd0]; lra. Qed.

(* one period: the invariant is re-established for the shifted window, and the end-of-period record is as stated *)
Lemma period_step s w : J s w -> 0 <= dem n1 -> dem n1 <= BIG ->
  let e := run_actions NW1 dis dem s in
  let w' := nextw w (dem n1) in
  gq e (fIL, n1, Ext) == S - qsum w' /\ gq e (fOO, n1, Ext) == qsum w' /\
  c_tc (node_costs NW1 e n1) == h * qmax 0 (S - qsum w') + p * qmax 0 (qsum w' - S) /\
  J (next_period NW1 dis e) w'.
Proof.
  intros HJ Hd Hb. cbv zeta. unfold run_actions. rewrite (proj1 visits), (proj2 visits). cbn [fold_left].
  pose proof (orders_eff s w HJ Hd Hb) as OE. cbv zeta in OE. set (s1 := orders_action NW1 dis dem s n1) in *.
  destruct OE as (O_il & O_rm & O_idi & O_odi & O_bo & O_pio & O_oo & O_sp).
  destruct HJ as [Jlen Jnn Jil Joo Jsp Jrm Jidi Jpio Jodi Jbo].
  destruct (pipeline_step w (dem n1) (gl s (fSP, n1, Ext)) Jlen Jsp) as [P1 P2].
  assert (Hhd : hd0 (gl s1 (fSP, n1, Ext)) == hd0 (w ++ [dem n1])) by (rewrite (leq_hd0 _ _ O_sp); exact P2).
  assert (Hhd0 : 0 <= hd0 (w ++ [dem n1])).
  { apply hd0_nonneg. apply Forall_app. split; [exact Jnn|constructor; [exact Hd|constructor]]. }
  pose proof (ships_eff s1) as SE. cbv zeta in SE.
  assert (B1 : 0 <= gq s1 (fBO, n1, Ext)) by (rewrite O_bo, Jbo; qcases; lra).
  assert (B2 : 0 <= gq s1 (fPIO, n1, Ext)) by (rewrite O_pio, Jpio; lra).
  assert (B3 : 0 <= gq s1 (fODI, n1, Ext)) by (rewrite O_odi, Jodi; lra).
  assert (B4 : 0 <= gq s1 (fRM, n1, Ext)) by (rewrite O_rm, Jrm; lra).
  assert (B5 : 0 <= gq s1 (fIDI, n1, Ext)) by (rewrite O_idi, Jidi; lra).
  assert (B6 : 0 <= hd0 (gl s1 (fSP, n1, Ext))) by (rewrite Hhd; exact Hhd0).
  specialize (SE B1 B2 B3 B4 B5 B6). set (e := ships_action NW1 dis s1 n1) in *.
  destruct SE as (E_il & E_oo & E_sp & E_rm & E_idi & E_pio & E_odi & E_bo).
  assert (Ew : qsum (nextw w (dem n1)) == qsum w + dem n1 - hd0 (w ++ [dem n1])).
  { unfold nextw. rewrite qsum_tl, qsum_app. cbn [qsum]. lra. }
  assert (Fil : gq e (fIL, n1, Ext) == S - qsum (nextw w (dem n1))).
  { rewrite E_il, Ew, O_il, O_rm, O_idi, O_pio, Hhd, Jrm, Jidi, Jpio. lra. }
  assert (Foo : gq e (fOO, n1, Ext) == qsum (nextw w (dem n1))).
  { rewrite E_oo, Ew, O_oo, Hhd, Joo. lra. }
  assert (Fodi : gq e (fODI, n1, Ext) == 0) by (apply E_odi; rewrite O_odi; exact Jodi).
  assert (Fbo : gq e (fBO, n1, Ext) == qmax 0 (- gq e (fIL, n1, Ext))).
  { apply E_bo; [rewrite O_bo, O_il; exact Jbo|rewrite O_odi; exact Jodi]. }
  split; [exact Fil|]. split; [exact Foo|]. split.
  - unfold node_costs. cbn [c_tc cfg NW1 c1 customers succs preds has_dem hc pc ith rev map app]. unfold qsumf. cbn [map qsum].
    rewrite Fodi. rewrite Fil. qcases; lra.
  - (* next period *)
    unfold next_period. cbn [nodes NW1 fold_left]. unfold next_node. cbn [cfg NW1 c1 suppliers customers preds succs ext_sup has_dem map app fold_left].
    rewrite no_disruption.
    assert (Len : length (nextw w (dem n1)) = L).
    { unfold nextw. destruct w; cbn [app tl length] in *; [exact Jlen|]. rewrite app_length. cbn [length]. lia. }
    assert (Nn : Forall (fun x => 0 <= x) (nextw w (dem n1))).
    { unfold nextw. assert (F : Forall (fun x => 0 <= x) (w ++ [dem n1])) by (apply Forall_app; split; [exact Jnn|constructor; [exact Hd|constructor]]).
      destruct (w ++ [dem n1]); cbn [tl]; [constructor|inversion F; assumption]. }
    constructor.
    + exact Len.
    + exact Nn.
    + gs. rewrite Fil. lra.
    + gs. exact Foo.
    + gs. rewrite E_sp. apply leq_shift_sp. apply (leq_trans _ (zero0 (add_at (0 + L) (dem n1) (gl s (fSP, n1, Ext))))); [apply leq_zero0; exact O_sp|exact P1].
    + gs. exact E_rm.
    + gs. rewrite E_idi. reflexivity.
    + gs. rewrite E_pio. reflexivity.
    + gs. exact Fodi.
    + gs. exact Fbo.
Qed.
End Single.

Section SingleRun.
Variables (S h p : Q) (L : nat).
Hypothesis S_nonneg : 0 <= S.
Notation NW := (NW1 S h p L).
Notation n1 := 1%N.

Lemma J_init : J S L (init_state NW) (repeat 0 L).
Proof. unfold init_state. cbn [nodes NW1 fold_left]. unfold init_node.
  cbn [cfg NW1 c1 customers suppliers succs preds has_dem ext_sup map app fold_left init_il pol rule init_ships init_orders slt olt].
  constructor.
  - apply repeat_length.
  - clear. induction L; cbn [repeat]; constructor; [lra|assumption].
  - gs. rewrite qsum_repeat. qcases; lra.
  - gs. rewrite qsum_repeat. unfold qnat. cbn [Z.of_nat inject_Z]. lra.
  - gs. cbn [repeat app]. destruct L as [|k]; cbn [repeat shift_sp app].
    + constructor; [reflexivity|constructor].
    + constructor; [lra|]. apply leq_refl.
  - gs. rewrite gq_empty. reflexivity.
  - gs. rewrite gq_empty. reflexivity.
  - gs. rewrite gq_empty. reflexivity.
  - gs. rewrite gq_empty. reflexivity.
  - gs. rewrite gq_empty. qcases; lra.
Qed.

(* successive windows of the last L orders *)
Fixpoint windows (w : list Q) (ds : list Q) : list (list Q) :=
  match ds with [] => [] | d :: r => nextw w d :: windows (nextw w d) r end.
Definition mk_inputs (dl : list ((N -> bool) * Q)) : list ((N -> bool) * (N -> Q)) := map (fun x => (fst x, fun _ : N => snd x)) dl.

Theorem single_stage_from : forall dl s w, J S L s w -> Forall (fun x => 0 <= snd x /\ snd x <= BIG) dl ->
  Forall2 (fun e w' => gq e (fIL, n1, Ext) == S - qsum w' /\ gq e (fOO, n1, Ext) == qsum w' /\
                       c_tc (node_costs NW e n1) == h * qmax 0 (S - qsum w') + p * qmax 0 (qsum w' - S))
          (run_from NW s (mk_inputs dl)) (windows w (map snd dl)).
Proof. induction dl as [|[dis d] r IH]; intros s w HJ Hd; cbn [mk_inputs map run_from windows fst snd]; [constructor|].
  inversion Hd as [|? ? [H0 H1] Hr]; subst. cbn [snd] in *.
  destruct (period_step S h p L dis (fun _ => d) s w HJ H0 H1) as (A & B & Cc & Jn).
  constructor; [split; [exact A|split; [exact B|exact Cc]]|]. apply IH; assumption. Qed.

Theorem single_stage_pathwise dl : Forall (fun x => 0 <= snd x /\ snd x <= BIG) dl ->
  Forall2 (fun e w' => gq e (fIL, n1, Ext) == S - qsum w' /\ gq e (fOO, n1, Ext) == qsum w' /\
                       c_tc (node_costs NW e n1) == h * qmax 0 (S - qsum w') + p * qmax 0 (qsum w' - S))
          (run NW (mk_inputs dl)) (windows (repeat 0 L) (map snd dl)).
Proof. intros H. unfold run. apply single_stage_from; [apply J_init|exact H]. Qed.
End SingleRun.

(* the t-th window is the last L entries of (L zeros followed by the first t+1 demands): the lead-time demand *)
Lemma skipn1_tl {A} (l : list A) : skipn 1 l = tl l.
Proof. destruct l; reflexivity. Qed.
Lemma windows_nth : forall ds w t, (t < length ds)%nat ->
  nth t (windows w ds) [] = skipn (S t) (w ++ firstn (S t) ds).
Proof. induction ds as [|d r IH]; intros w t Ht; cbn [length] in Ht; [lia|]. destruct t as [|t'].
  - change (windows w (d :: r)) with (nextw w d :: windows (nextw w d) r). change (firstn 1 (d :: r)) with [d].
    rewrite skipn1_tl. reflexivity.
  - change (windows w (d :: r)) with (nextw w d :: windows (nextw w d) r).
    change (nth (S t') (nextw w d :: windows (nextw w d) r) []) with (nth t' (windows (nextw w d) r) []).
    rewrite IH by lia. rewrite firstn_cons.
    replace (w ++ d :: firstn (S t') r) with ((w ++ [d]) ++ firstn (S t') r) by (rewrite <- app_assoc; reflexivity).
    unfold nextw. destruct (w ++ [d]) as [|a l] eqn:E; [destruct w; discriminate|].
    change ((a :: l) ++ firstn (S t') r) with (a :: (l ++ firstn (S t') r)). rewrite skipn_cons. reflexivity. Qed.
