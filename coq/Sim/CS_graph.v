(* The local base-stock serial network of Sim/Serial.v satisfies the structural hypotheses of the general simulator
   theorems: the predecessor / successor lists are mutually consistent ([wf_graph]) and the two traversals of sim.step
   are complete, duplicate-free and topological ([visit_ok]).  ([wf_net] and the outside condition: Serial.wfNW, woNW.) *)
From Coq Require Import Permutation.
From SV Require Import Sim.Model Sim.StateLemmas Sim.Inv_base Sim.Inv_book Sim.Inv_pipe Sim.Inv_node Sim.Inv_init Sim.Inv_run
  Sim.Inv_bound Sim.Single Sim.Policy_thms Sim.Delay Sim.PerPeriod Sim.Obs Sim.Wfb Sim.Serial.

Lemma firstl_in x l : In x (firstl l) -> In x l.
Proof. destruct l as [|a r]; cbn [firstl]; [intros []|]. intros [E|[]]. left. exact E. Qed.
Lemma lastl_in x l : In x (lastl l) -> In x l.
Proof. unfold lastl. intros H. apply firstl_in in H. apply in_rev. exact H. Qed.

Section Graph.
Variables (B : net) (lv : N -> Q) (ch : list N).
Hypothesis HndN : NoDup (nodes B).
Hypothesis Hsame : forall n, In n (nodes B) <-> In n ch.
Hypothesis Hnd : NoDup ch.
Hypothesis Hser : serial_cfg B ch.
Hypothesis Hout : forall n, ~ In n ch -> cfg B n = dflt_cfg.
Hypothesis Hnonempty : ch <> [].
Notation NW := (repol B (fun n => BS (lv n))).
Notation C := (cfg NW).

Lemma preds_in_ch n p : In p (preds (C n)) -> exists pre post, ch = pre ++ p :: n :: post.
Proof. cbn [cfg repol setpol preds]. intros Hp. destruct (in_dec N.eq_dec n ch) as [Hi|Ho]; [|rewrite (Hout n Ho) in Hp; destruct Hp].
  destruct (in_split n ch Hi) as (pre & post & E). destruct (Hser pre n post E) as (P & _). rewrite P in Hp.
  destruct (pre_cases pre) as [->|(pre' & q & ->)]; [destruct Hp|]. rewrite lastl_snoc in Hp. destruct Hp as [<-|[]].
  exists pre', post. rewrite <- snoc_cons. exact E. Qed.
Lemma succs_in_ch p n : In n (succs (C p)) -> exists pre post, ch = pre ++ p :: n :: post.
Proof. cbn [cfg repol setpol succs]. intros Hs. destruct (in_dec N.eq_dec p ch) as [Hi|Ho]; [|rewrite (Hout p Ho) in Hs; destruct Hs].
  destruct (in_split p ch Hi) as (pre & post & E). destruct (Hser pre p post E) as (_ & Sx & _). rewrite Sx in Hs.
  destruct post as [|m r]; [destruct Hs|]. cbn [firstl] in Hs. destruct Hs as [<-|[]]. exists pre, r. exact E. Qed.
Lemma edge_preds pre p n post : ch = pre ++ p :: n :: post -> preds (C n) = [p] /\ succs (C p) = [n].
Proof. intros E. cbn [cfg repol setpol preds succs]. split.
  - assert (E2 : ch = (pre ++ [p]) ++ n :: post) by (rewrite snoc_cons; exact E).
    destruct (Hser _ n post E2) as (P & _). rewrite P. apply lastl_snoc.
  - destruct (Hser pre p (n :: post) E) as (_ & Sx & _). rewrite Sx. reflexivity. Qed.

Lemma wgNW : wf_graph NW.
Proof. constructor. intros n p. split.
  - intros Hp. destruct (preds_in_ch n p Hp) as (pre & post & E). rewrite (proj2 (edge_preds pre p n post E)). left. reflexivity.
  - intros Hs. destruct (succs_in_ch p n Hs) as (pre & post & E). rewrite (proj1 (edge_preds pre p n post E)). left. reflexivity. Qed.

Lemma topo_rev_prefix : forall pre post, ch = pre ++ post -> topo NW (List.rev pre).
Proof. induction pre as [|x pre0 IH] using rev_ind; intros post E; [constructor|]. rewrite rev_unit.
  rewrite snoc_cons in E. pose proof Hnd as Hnd'. rewrite E in Hnd'. destruct (nodup_mid pre0 x post Hnd') as (N1 & _).
  constructor.
  - intros Hp. destruct (preds_in_ch x x Hp) as (a & b & E2).
    rewrite E2 in Hnd. destruct (nodup_mid a x (x :: b) Hnd) as (_ & N2 & _). apply N2. left. reflexivity.
  - intros m Hm Hp. apply in_rev in Hm. destruct (preds_in_ch m x Hp) as (a & b & E2).
    (* x precedes m in the chain, but m is in pre0 which precedes x *)
    destruct (in_split m pre0 Hm) as (u & v & Ev). rewrite Ev in E. rewrite <- app_assoc in E. cbn [app] in E.
    assert (E3 : ch = (a ++ [x]) ++ m :: b) by (rewrite snoc_cons; exact E2).
    destruct (split_unique ch Hnd u m (v ++ x :: post) (a ++ [x]) b E E3) as [Eu _].
    apply N1. rewrite Ev, Eu. apply in_or_app. left. apply in_or_app. right. left. reflexivity.
  - apply (IH (x :: post)). exact E. Qed.

Lemma voNW : visit_ok NW.
Proof. destruct ch as [|h t] eqn:Ech; [contradiction|]. rewrite <- Ech in *.
  destruct (visits_chain NW ch HndN Hsame Hnd Hser h t Ech) as [V1 V2].
  constructor.
  - rewrite V1. apply (topo_rev_prefix ch []). rewrite app_nil_r. reflexivity.
  - intros n Hn. rewrite V1. apply -> in_rev. apply Hsame. exact Hn.
  - intros n Hn. rewrite V2. apply Hsame. exact Hn.
  - exact HndN.
  - rewrite V1. apply NoDup_rev. exact Hnd.
  - rewrite V2. exact Hnd. Qed.
End Graph.
