(* Decidable versions of the hypotheses of the simulator theorems, with soundness proofs, so that the harness can
   evaluate them on every generated network (and an Example can discharge them by computation). *)
From SV Require Import Sim.Model Sim.Obs Sim.StateLemmas Sim.Inv_base Sim.Inv_book Sim.Inv_pipe Sim.Inv_bound.

Definition nb_eqb (a b : nb) : bool := if nb_eq_dec a b then true else false.
Fixpoint nodup_nb (l : list nb) : bool := match l with [] => true | a :: r => negb (existsb (nb_eqb a) r) && nodup_nb r end.
Lemma nodup_nb_sound l : nodup_nb l = true -> NoDup l.
Proof. induction l as [|a r IH]; cbn [nodup_nb]; intros H; [constructor|]. apply andb_true_iff in H. destruct H as [H1 H2].
  constructor; [|apply IH; exact H2]. intro Hin. apply negb_true_iff in H1. assert (existsb (nb_eqb a) r = true); [|congruence].
  apply existsb_exists. exists a. split; [exact Hin|]. unfold nb_eqb. destruct (nb_eq_dec a a); [reflexivity|congruence]. Qed.

Definition pol_okb (c : ncfg) : bool :=
  match pol c with SS rp lv => qleb rp lv | RQ _ q => qleb 0 q | FQ q => qleb 0 q | _ => true end
  && match cap c with Some k => qleb 0 k | None => true end.
Lemma qleb_true a b : qleb a b = true -> a <= b.
Proof. intros H. destruct (qleb_spec a b) as [[L _]|[_ E]]; [exact L|congruence]. Qed.
Lemma pol_okb_sound c : pol_okb c = true -> pol_ok c.
Proof. unfold pol_okb, pol_ok. intros H. apply andb_true_iff in H. destruct H as [H1 H2]. split.
  - destruct (pol c); try exact I; apply qleb_true; exact H1.
  - destruct (cap c); [apply qleb_true; exact H2|exact I]. Qed.

Definition node_okb (NW : net) (n : N) : bool :=
  let c := cfg NW n in
  nodup_nb (suppliers c) && nodup_nb (customers c) && pol_okb c && qleb 0 (init_orders c) && qleb 0 (init_ships c)
  && match init_il c with Some x => qleb 0 x | None => true end
  && forallb (fun p => memN n (succs (cfg NW p)) && memN p (nodes NW)) (preds c)
  && forallb (fun s => memN n (preds (cfg NW s)) && memN s (nodes NW)) (succs c).
Definition netb (NW : net) : bool := forallb (node_okb NW) (nodes NW) && visit_okb NW.

(* the configuration is inert outside the node list *)
Definition inert (NW : net) : Prop := forall n, ~ In n (nodes NW) -> cfg NW n = dflt_cfg.

Lemma tbl_outside {A} (d : A) l n : ~ In n (map fst l) -> tbl d l n = d.
Proof. induction l as [|[k v] r IH]; cbn [tbl map fst]; intros H; [reflexivity|].
  destruct (N.eqb_spec n k) as [E|NE]; [exfalso; apply H; left; symmetry; exact E|]. apply IH. intro X. apply H. right. exact X. Qed.
Lemma inert_tbl l : inert {| nodes := map fst l; cfg := tbl dflt_cfg l |}.
Proof. intros n Hn. cbn [cfg nodes] in *. apply tbl_outside. exact Hn. Qed.

Section Sound.
Variable NW : net.
Hypothesis IN : inert NW.
Hypothesis OK : netb NW = true.

Lemma node_ok n : In n (nodes NW) -> node_okb NW n = true.
Proof. intros Hn. unfold netb in OK. apply andb_true_iff in OK. destruct OK as [H _]. rewrite forallb_forall in H. apply H. exact Hn. Qed.

Lemma outside n : ~ In n (nodes NW) ->
  preds (cfg NW n) = [] /\ succs (cfg NW n) = [] /\ ext_sup (cfg NW n) = false /\ has_dem (cfg NW n) = false /\ il0 NW n == 0.
Proof. intros Hn. unfold il0. rewrite (IN n Hn). cbn. repeat split; try reflexivity. Qed.

Lemma wf_net_of_netb : wf_net NW.
Proof. constructor; intros n; destruct (in_dec N.eq_dec n (nodes NW)) as [Hn|Hn].
  - pose proof (node_ok n Hn) as H. unfold node_okb in H. repeat (apply andb_true_iff in H; destruct H as [H ?]). apply nodup_nb_sound. assumption.
  - rewrite (IN n Hn). cbn. constructor.
  - pose proof (node_ok n Hn) as H. unfold node_okb in H. repeat (apply andb_true_iff in H; destruct H as [H ?]). apply nodup_nb_sound. assumption.
  - rewrite (IN n Hn). cbn. constructor.
  - pose proof (node_ok n Hn) as H. unfold node_okb in H. repeat (apply andb_true_iff in H; destruct H as [H ?]). apply pol_okb_sound. assumption.
  - rewrite (IN n Hn). split; exact I.
  - pose proof (node_ok n Hn) as H. unfold node_okb in H. repeat (apply andb_true_iff in H; destruct H as [H ?]).
    split; [apply qleb_true; assumption|]. split; [apply qleb_true; assumption|].
    destruct (init_il (cfg NW n)); [apply qleb_true; assumption|exact I].
  - rewrite (IN n Hn). cbn. repeat split; try lra. Qed.

Lemma wf_graph_of_netb : wf_graph NW.
Proof. constructor. intros n p. split.
  - intros Hp. destruct (in_dec N.eq_dec n (nodes NW)) as [Hn|Hn]; [|rewrite (IN n Hn) in Hp; destruct Hp].
    pose proof (node_ok n Hn) as H. unfold node_okb in H. repeat (apply andb_true_iff in H; destruct H as [H ?]).
    match goal with X : forallb _ (preds _) = true |- _ => rewrite forallb_forall in X; specialize (X p Hp); apply andb_true_iff in X; destruct X as [X _]; apply memN_In; exact X end.
  - intros Hs. destruct (in_dec N.eq_dec p (nodes NW)) as [Hn|Hn]; [|rewrite (IN p Hn) in Hs; destruct Hs].
    pose proof (node_ok p Hn) as H. unfold node_okb in H. repeat (apply andb_true_iff in H; destruct H as [H ?]).
    match goal with X : forallb _ (succs _) = true |- _ => rewrite forallb_forall in X; specialize (X n Hs); apply andb_true_iff in X; destruct X as [X _]; apply memN_In; exact X end. Qed.

Lemma visit_ok_of_netb : visit_ok NW.
Proof. apply visit_okb_sound. unfold netb in OK. apply andb_true_iff in OK. apply OK. Qed.
End Sound.
