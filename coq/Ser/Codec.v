(* C17 — model of the attribute-table-driven to_dict / from_dict of stockpyl's SupplyChainNetwork, SupplyChainNode,
   SupplyChainProduct, Policy, DemandSource, DisruptionProcess, NodeStateVars, and of the instance file.
   Executable, no proofs (see Codec_proofs.v).

   An object is  VObj [(attribute name, value); ...]  in the order of its class's attribute table (_DEFAULT_VALUES).
   A [schema] describes how the Python code treats an attribute (its KIND) — the harness builds the schema of the
   network class from the CURRENT source's _DEFAULT_VALUES tables on every run; attribute names that the Python code
   special-cases get the corresponding kind, every other attribute is "plain":

     SPlain m     value copied as is by to_dict; from_dict post-processes it according to m:
                    RPass        nothing                                     (Policy, DisruptionProcess, NodeStateVars, ...)
                    RReint       SupplyChainNode's generic branch: dicts go through replace_dict_numeric_string_keys
                                 (a 'dict_type' entry selects the marker logic)
                    RReintNull   numeric-string keys -> int and 'null' -> None (NodeStateVars after a repair; unused otherwise)
                    RIntKeys     {int(k): v ...}                             (SupplyChainProduct._bill_of_materials)
                    RDemandList  DemandSource.demand_list (dict elements get int keys)
     SGetter m    like SPlain but to_dict writes what the *property* returns ([VGet stored seen]), which for
                  DemandSource.mean / standard_deviation is derived from the distribution when the stored field is None
     SRef         an object replaced by its index (or None): _dummy_product, _external_supplier_dummy_product
     SRefOwner    link to the node that holds the object (Policy.node at node level, NodeStateVars.node): written as
                  the index; from_dict of the holder re-links it to the holder
     SRefDrop     Policy.node at product level: written, but set to None by SupplyChainProduct.from_dict (documented)
     SBacklink    'network': written as None, re-linked by the network   }  the model does not represent their
     SSkip        _products, _products_by_index: not written, rebuilt     }  content: the value is the token [VLink]
     SObjAttr mk nm c   None | object of class c | product-keyed dict of such objects.  mk = MarkerYes: node level,
                  to_dict adds 'dict_type': 'singleton_attribute' / 'product_keyed_attribute'; MarkerNo: product level.
                  nm says what from_dict does with None: NoneCrash (TypeError: `'dict_type' in None`),
                  NoneKeeps (None), NoneDefault (X.from_dict(None) = default object).
     SObjList c   None | list of objects of class c (state_vars, _nodes, _products)
     SClass idx strip attrs   a class: attribute table (name, (kind, default)); strip = keys lose the leading '_'
                  (Policy, DemandSource, DisruptionProcess); idx = the class has '_index' and is the owner of
                  SRefOwner links below it (SupplyChainNode). *)
From SV Require Export Ser.Json.
Open Scope list_scope.

Inductive rmode := RPass | RReint | RReintNull | RIntKeys | RDemandList.
Inductive marker := MarkerYes | MarkerNo.
Inductive nonemode := NoneCrash | NoneKeeps | NoneDefault.

Inductive schema :=
| SPlain (m : rmode)
| SGetter (m : rmode)
| SRef | SRefOwner | SRefDrop | SBacklink | SSkip
| SObjAttr (mk : marker) (nm : nonemode) (c : schema)
| SObjList (c : schema)
| SClass (idx strip : bool) (attrs : list (string * (schema * pv))).

Inductive val :=
| VPlain (p : pv)
| VGet (stored seen : pv)
| VRef (r : option Z)
| VLink
| VNoneObj
| VObj (fields : list (string * val))
| VObjDict (l : list (Z * val))
| VObjList (l : list val)
| VErr.                               (* from_dict raised *)

(* --- post-processing of plain values in from_dict ------------------------------------------------ *)
Definition pk_marker := "product_keyed_attribute".
Definition sg_marker := "singleton_attribute".
Definition dict_type := "dict_type".

Fixpoint int_keys (l : list (key * pv)) : option (list (key * pv)) :=
  match l with
  | [] => Some []
  | (k, x) :: r => match int_of_key k, int_keys r with
                   | Some z, Some t => Some ((KInt z, x) :: t)
                   | _, _ => None
                   end
  end.

Definition demand_elem (p : pv) : option pv :=
  match p with PDict l => option_map PDict (int_keys l) | _ => Some p end.
Fixpoint opt_map {A B} (f : A -> option B) (l : list A) : option (list B) :=
  match l with
  | [] => Some []
  | x :: r => match f x, opt_map f r with Some y, Some t => Some (y :: t) | _, _ => None end
  end.

Fixpoint remove_key (k : key) (l : list (key * pv)) : list (key * pv) :=
  match l with
  | [] => []
  | (k', x) :: r => if key_eqb k k' then remove_key k r else (k', x) :: remove_key k r
  end.

Definition reint (m : rmode) (p : pv) : option pv :=
  match m with
  | RPass => Some p
  | RReint =>
      match p with
      | PDict l =>
          match lookup_str dict_type l with
          | None => Some (reint_keys p)
          | Some t => match t with
                      | PStr t' => if String.eqb t' pk_marker then Some (reint_keys p)       (* marker stays in the new dict *)
                                   else Some (PDict (remove_key (KStr dict_type) l))
                      | _ => Some (PDict (remove_key (KStr dict_type) l))
                      end
          end
      | _ => Some p
      end
  | RReintNull => Some (null_keys (reint_keys p))
  | RIntKeys => match p with PDict l => option_map PDict (int_keys l) | _ => None end
  | RDemandList =>
      match p with
      | PNone => Some PNone
      | PList l => option_map PList (opt_map demand_elem l)
      | PTuple l => option_map PList (opt_map demand_elem l)
      | _ => None
      end
  end.

(* --- hypotheses on plain values: unchanged by  from_dict . to_dict  resp.  from_dict . json . to_dict ---- *)
Definition str_key_ok (s : string) : bool :=
  negb (maybe_numeric s) && match parse_int s with None => true | Some _ => false end.
Definition dkey_ok (k : key) : bool := match k with KStr s => str_key_ok s | _ => true end.
Definition jkey_ok (k : key) : bool := match k with KStr s => str_key_ok s | KInt _ => true | KNone => false end.
Definition dkey_ok_null (k : key) : bool := match k with KStr s => str_key_ok s && negb (String.eqb s "null") | _ => true end.
Definition jkey_ok_null (k : key) : bool := dkey_ok_null k.

(* nested-dict key condition (recursion follows dict values that are dicts, like replace_dict_numeric_string_keys) *)
Fixpoint keys_all (ok : key -> bool) (leaf : pv -> bool) (p : pv) : bool :=
  match p with
  | PDict l => forallb (fun kx => ok (fst kx) && keys_all ok leaf (snd kx)) l
  | _ => leaf p
  end.
Definition no_dict_type (p : pv) : bool :=
  match p with PDict l => match lookup_str dict_type l with None => true | Some _ => false end | _ => true end.
Definition int_keyed (leaf : pv -> bool) (p : pv) : bool :=
  match p with PDict l => forallb (fun kx => key_is_int (fst kx) && leaf (snd kx)) l | _ => false end.
Definition demand_list_ok (leaf : pv -> bool) (p : pv) : bool :=
  match p with
  | PNone => true
  | PList l => forallb (fun e => match e with PDict _ => int_keyed leaf e | _ => leaf e end) l
  | _ => false
  end.

Definition tt_leaf (p : pv) : bool := true.
(* stable under from_dict . to_dict *)
Definition dst (m : rmode) (p : pv) : bool :=
  match m with
  | RPass => true
  | RReint => no_dict_type p && keys_all dkey_ok tt_leaf p
  | RReintNull => keys_all dkey_ok_null tt_leaf p
  | RIntKeys => int_keyed tt_leaf p
  | RDemandList => demand_list_ok tt_leaf p
  end.
(* stable under from_dict . json_dump_load . to_dict *)
Definition jst (m : rmode) (p : pv) : bool :=
  match m with
  | RPass => jst_pass p
  | RReint => no_dict_type p && keys_all jkey_ok jst_pass p
  | RReintNull => keys_all jkey_ok_null jst_pass p
  | RIntKeys => int_keyed jst_pass p
  | RDemandList => demand_list_ok jst_pass p
  end.

(* --- to_dict ---------------------------------------------------------------------------------------- *)
Definition keyname (strip : bool) (a : string) : string :=
  if strip then match a with String "_"%char r => r | _ => a end else a.
Definition is_skip (s : schema) : bool := match s with SSkip => true | _ => false end.
Definition marker_entry (t : string) : key * pv := (KStr dict_type, PStr t).
Definition add_marker (t : string) (p : pv) : pv :=
  match p with PDict l => PDict (l ++ [marker_entry t]) | _ => p end.
Definition enc_ref (r : option Z) : pv := match r with Some z => PNum (inject_Z z) | None => PNone end.

Fixpoint encode (s : schema) (v : val) {struct s} : pv :=
  match s with
  | SPlain _ => match v with VPlain p => p | _ => PNone end
  | SGetter _ => match v with VGet _ seen => seen | _ => PNone end
  | SRef | SRefOwner | SRefDrop => match v with VRef r => enc_ref r | _ => PNone end
  | SBacklink | SSkip => PNone
  | SObjAttr mk _ c =>
      match v with
      | VObj _ => match mk with MarkerYes => add_marker sg_marker (encode c v) | MarkerNo => encode c v end
      | VObjDict l => PDict (map (fun ko => (KInt (fst ko), encode c (snd ko))) l ++ [marker_entry pk_marker])
      | _ => PNone
      end
  | SObjList c => match v with VObjList l => PList (map (encode c) l) | _ => PNone end
  | SClass _ strip attrs =>
      match v with
      | VObj fields =>
          PDict ((fix go (al : list (string * (schema * pv))) (fl : list (string * val)) : list (key * pv) :=
                    match al, fl with
                    | (a, (sa, _)) :: al', (_, va) :: fl' =>
                        (if is_skip sa then [] else [(KStr (keyname strip a), encode sa va)]) ++ go al' fl'
                    | _, _ => []
                    end) attrs fields)
      | _ => PNone
      end
  end.

(* --- from_dict -------------------------------------------------------------------------------------- *)
Definition is_pk (l : list (key * pv)) : bool :=
  match lookup_str dict_type l with Some (PStr t) => String.eqb t pk_marker | _ => false end.
Definition dflt_list (d : pv) : val := match d with PList _ => VObjList [] | _ => VNoneObj end.
Definition index_attr := "_index".

(* d = None: the attribute is missing from the dict -> default *)
Fixpoint decode (s : schema) (owner : option Z) (dflt : pv) (d : option pv) {struct s} : val :=
  match s with
  | SPlain m =>
      match d with
      | Some p => match reint m p with Some p' => VPlain p' | None => VErr end
      | None => VPlain dflt
      end
  | SGetter m =>
      match d with
      | Some p => match reint m p with Some p' => VGet p' p' | None => VErr end
      | None => VGet dflt dflt
      end
  | SRef =>
      match d with
      | None => VRef None
      | Some PNone => VRef None
      | Some (PNum q) => match q_to_Z q with Some z => VRef (Some z) | None => VErr end
      | Some _ => VErr
      end
  | SRefOwner => VRef owner
  | SRefDrop => VRef None
  | SBacklink | SSkip => VLink
  | SObjAttr mk nm c =>
      match d with
      | None => decode c owner PNone None
      | Some PNone =>
          match nm with NoneCrash => VErr | NoneKeeps => VNoneObj | NoneDefault => decode c owner PNone None end
      | Some (PDict l) =>
          match mk with
          | MarkerNo => decode c owner PNone d
          | MarkerYes =>
              if is_pk l then
                match (fix go (l : list (key * pv)) : option (list (Z * val)) :=
                         match l with
                         | [] => Some []
                         | (k, x) :: r =>
                             if key_eqb k (KStr dict_type) then go r
                             else match int_of_key k, go r with
                                  | Some z, Some t => Some ((z, decode c owner PNone (Some x)) :: t)
                                  | _, _ => None
                                  end
                         end) l with
                | Some r => VObjDict r
                | None => VErr
                end
              else decode c owner PNone d
          end
      | Some _ => VErr
      end
  | SObjList c =>
      match d with
      | None => dflt_list dflt
      | Some PNone => VNoneObj
      | Some (PList l) => VObjList (map (fun x => decode c owner PNone (Some x)) l)
      | Some _ => VErr
      end
  | SClass idx strip attrs =>
      match match d with Some (PDict l) => Some l | None => Some [] | Some _ => None end with
      | None => VErr
      | Some l =>
          let owner' := if idx then pv_index (lookup_str (keyname strip index_attr) l) else owner in
          VObj ((fix go (al : list (string * (schema * pv))) : list (string * val) :=
                   match al with
                   | [] => []
                   | (a, (sa, da)) :: al' => (a, decode sa owner' da (lookup_str (keyname strip a) l)) :: go al'
                   end) attrs)
      end
  end.

(* --- the documented exceptions ----------------------------------------------------------------------- *)
Fixpoint assoc {A} (a : string) (l : list (string * A)) : option A :=
  match l with [] => None | (a', x) :: r => if String.eqb a a' then Some x else assoc a r end.
Definition val_index (fields : list (string * val)) : option Z :=
  match assoc index_attr fields with Some (VPlain (PNum q)) => q_to_Z q | _ => None end.

(* [forget s owner v] = v with (1) product-level policy node links cleared (SRefDrop; documented in
   SupplyChainProduct.from_dict) and (2) a None-valued object attribute of kind NoneDefault (product level
   demand_source / inventory_policy) replaced by the default object X.from_dict(None) — stockpyl treats "None" and
   "object whose type is None" alike everywhere it reads these attributes. *)
Fixpoint forget (s : schema) (owner : option Z) (v : val) {struct s} : val :=
  match s with
  | SRefDrop => match v with VRef _ => VRef None | _ => v end
  | SObjAttr _ nm c =>
      match v with
      | VObj _ => forget c owner v
      | VObjDict l => VObjDict (map (fun ko => (fst ko, forget c owner (snd ko))) l)
      | VNoneObj => match nm with NoneDefault => decode c owner PNone None | _ => v end
      | _ => v
      end
  | SObjList c => match v with VObjList l => VObjList (map (forget c owner) l) | _ => v end
  | SClass idx _ attrs =>
      match v with
      | VObj fields =>
          let owner' := if idx then val_index fields else owner in
          VObj ((fix go (al : list (string * (schema * pv))) (fl : list (string * val)) : list (string * val) :=
                   match al, fl with
                   | (a, (sa, _)) :: al', (_, va) :: fl' => (a, forget sa owner' va) :: go al' fl'
                   | _, _ => []
                   end) attrs fields)
      | _ => v
      end
  | _ => v
  end.
(* structural equality of modelled objects up to the documented exceptions *)
Definition equiv (s : schema) (owner : option Z) (a b : val) : Prop := forget s owner a = forget s owner b.

(* --- well-formedness of a schema and of an object w.r.t. a schema ----------------------------------- *)
Definition is_class (s : schema) : Prop := match s with SClass _ _ _ => True | _ => False end.
Definition is_obj (v : val) : Prop := match v with VObj _ => True | _ => False end.
Definition attr_keys (strip : bool) (attrs : list (string * (schema * pv))) : list string :=
  map (fun x => keyname strip (fst x)) attrs.

Fixpoint wf_schema (s : schema) {struct s} : Prop :=
  match s with
  | SObjAttr _ _ c => is_class c /\ wf_schema c
  | SObjList c => wf_schema c
  | SClass idx strip attrs =>
      NoDup (attr_keys strip attrs) /\ ~ In dict_type (attr_keys strip attrs) /\
      (idx = true -> exists dv, assoc index_attr attrs = Some (SPlain RPass, dv)) /\
      (fix all (al : list (string * (schema * pv))) : Prop :=
         match al with [] => True | (_, (sa, _)) :: al' => wf_schema sa /\ all al' end) attrs
  | _ => True
  end.

(* executable version of wf_schema (the harness evaluates it on the schema extracted from the source on every run) *)
Fixpoint nodupb (l : list string) : bool :=
  match l with [] => true | x :: r => negb (existsb (String.eqb x) r) && nodupb r end.
Definition is_classb (s : schema) : bool := match s with SClass _ _ _ => true | _ => false end.
Fixpoint wf_schemab (s : schema) {struct s} : bool :=
  match s with
  | SObjAttr _ _ c => is_classb c && wf_schemab c
  | SObjList c => wf_schemab c
  | SClass idx strip attrs =>
      nodupb (attr_keys strip attrs) && negb (existsb (String.eqb dict_type) (attr_keys strip attrs)) &&
      (if idx then match assoc index_attr attrs with Some (SPlain RPass, _) => true | _ => false end else true) &&
      (fix all (al : list (string * (schema * pv))) : bool :=
         match al with [] => true | (_, (sa, _)) :: al' => wf_schemab sa && all al' end) attrs
  | _ => true
  end.

Section Conforms.
Variable stable : rmode -> pv -> bool.

Fixpoint conforms (s : schema) (owner : option Z) (v : val) {struct s} : Prop :=
  match s with
  | SPlain m => match v with VPlain p => stable m p = true | _ => False end
  | SGetter m => match v with VGet a b => a = b /\ stable m a = true | _ => False end
  | SRef => match v with VRef _ => True | _ => False end
  | SRefOwner => match v with VRef r => r = owner | _ => False end
  | SRefDrop => match v with VRef _ => True | _ => False end
  | SBacklink | SSkip => v = VLink
  | SObjAttr mk nm c =>
      match v with
      | VNoneObj => nm <> NoneCrash
      | VObj _ => conforms c owner v
      | VObjDict l =>
          mk = MarkerYes /\
          (fix all (l : list (Z * val)) : Prop :=
             match l with [] => True | (_, o) :: r => (is_obj o /\ conforms c owner o) /\ all r end) l
      | _ => False
      end
  | SObjList c =>
      match v with
      | VNoneObj => True
      | VObjList l => (fix all (l : list val) : Prop := match l with [] => True | o :: r => conforms c owner o /\ all r end) l
      | _ => False
      end
  | SClass idx strip attrs =>
      match v with
      | VObj fields =>
          (idx = true -> val_index fields <> None) /\
          let owner' := if idx then val_index fields else owner in
          (fix all (al : list (string * (schema * pv))) (fl : list (string * val)) : Prop :=
             match al, fl with
             | [], [] => True
             | (a, (sa, _)) :: al', (a', va) :: fl' => a = a' /\ conforms sa owner' va /\ all al' fl'
             | _, _ => False
             end) attrs fields
      | _ => False
      end
  end.
End Conforms.

(* --- the instance file (instances.py save_instance / load_instance) ---------------------------------- *)
(* On disk: {"_id", "instances": [ {name, description, data, type}, ...], "last_updated"}.  save_instance reads the
   whole file with json.load, replaces or appends one record and writes everything back with json.dump; every other
   record therefore goes through json_dump . json_load. *)
Record inst := { i_name : string; i_desc : string; i_data : jv; i_type : string }.
Definition file := list inst.

Definition reread (i : inst) : inst :=     (* json.load followed by json.dump of an untouched record *)
  {| i_name := i_name i; i_desc := i_desc i; i_data := json_dump (json_load (i_data i)); i_type := i_type i |}.

Fixpoint find_inst (nm : string) (f : file) : option inst :=
  match f with [] => None | i :: r => if String.eqb (i_name i) nm then Some i else find_inst nm r end.
Fixpoint replace_first (nm : string) (new : inst) (f : file) : file :=
  match f with
  | [] => []
  | i :: r => if String.eqb (i_name i) nm then new :: r else i :: replace_first nm new r
  end.

Definition save_file (nm desc : string) (data : pv) (ty : string) (replace : bool) (f : file) : file :=
  let f' := map reread f in
  let new := {| i_name := nm; i_desc := desc; i_data := json_dump data; i_type := ty |} in
  match find_inst nm f' with
  | Some _ => if replace then replace_first nm new f' else f      (* replace = False: returns before writing *)
  | None => f' ++ [new]
  end.
Definition load_file (nm : string) (f : file) : option pv := option_map (fun i => json_load (i_data i)) (find_inst nm f).

(* memory = the network objects the program holds; save_instance works on a deepcopy whose state_vars it may clear *)
Definition drop_sv_fields (fields : list (string * val)) : list (string * val) :=
  map (fun av => if String.eqb (fst av) "state_vars" then (fst av, VNoneObj) else av) fields.
Definition drop_state_vars (net : val) : val :=
  match net with
  | VObj fields =>
      VObj (map (fun av => if String.eqb (fst av) "_nodes"
                           then (fst av, match snd av with
                                         | VObjList ns => VObjList (map (fun n => match n with VObj nf => VObj (drop_sv_fields nf) | _ => n end) ns)
                                         | x => x end)
                           else av) fields)
  | _ => net
  end.

Inductive op :=
| OSave (src : nat) (nm desc : string) (replace omit_sv : bool)     (* save_instance(nm, mem[src], desc, replace=, omit_state_vars=) *)
| OSaveDict (nm desc : string) (data : pv) (replace : bool)         (* save_instance of a plain dict instance *)
| OLoad (nm : string).                                              (* load_instance(nm): the result is appended to memory *)

Record state := { st_mem : list val; st_file : file }.

Definition step (s : schema) (o : op) (st : state) : state :=
  match o with
  | OSave src nm desc replace omit =>
      match nth_error (st_mem st) src with
      | Some net =>
          let local := net in                                           (* deepcopy *)
          let local' := if omit then drop_state_vars local else local in
          {| st_mem := st_mem st; st_file := save_file nm desc (encode s local') "network" replace (st_file st) |}
      | None => st
      end
  | OSaveDict nm desc data replace =>
      {| st_mem := st_mem st; st_file := save_file nm desc data "dict" replace (st_file st) |}
  | OLoad nm =>
      match find_inst nm (st_file st) with
      | Some i =>
          if String.eqb (i_type i) "network"
          then {| st_mem := st_mem st ++ [decode s None PNone (Some (json_load (i_data i)))]; st_file := st_file st |}
          else st
      | None => st                                                       (* KeyError *)
      end
  end.
Definition run (s : schema) (ops : list op) (st : state) : state := fold_left (fun st o => step s o st) ops st.

Definition op_target (o : op) : option string :=
  match o with OSave _ nm _ _ _ => Some nm | OSaveDict nm _ _ _ => Some nm | OLoad _ => None end.
