(* C17 — proofs about Ser/Codec.v: from_dict . to_dict and from_dict . json . to_dict round trips for every object of
   every schema (induction over the schema and the value), refutations for the attribute kinds that do not
   round-trip, and the instance-file theorems (induction over operation lists). *)
From SV Require Import Ser.Json Ser.Json_proofs Ser.Codec.
From Coq Require Import Lia.
Open Scope list_scope.

(* ================================================================================================== *)
(* Part 1: plain values — what from_dict's post-processing does to a value that to_dict (and JSON) produced *)

Lemma int_keys_all_int (leaf : pv -> bool) l :
  forallb (fun kx => key_is_int (fst kx) && leaf (snd kx)) l = true -> int_keys l = Some l.
Proof.
  induction l as [|[k x] r IH]; cbn [forallb int_keys fst snd]; [reflexivity|].
  intro H. apply andb_true_iff in H as [H1 H2]. apply andb_true_iff in H1 as [Hk _].
  destruct k; try discriminate. cbn [int_of_key]. rewrite (IH H2). reflexivity.
Qed.

Lemma forallb_weaken {A} (f g : A -> bool) l : (forall x, In x l -> f x = true -> g x = true) -> forallb f l = true -> forallb g l = true.
Proof. rewrite !forallb_forall. intros H H1 x Hx. apply H; auto. Qed.

Lemma opt_map_id {A} (f : A -> option A) l : Forall (fun x => f x = Some x) l -> opt_map f l = Some l.
Proof. induction 1 as [|x r Hx _ IH]; cbn [opt_map]; [reflexivity | rewrite Hx, IH; reflexivity]. Qed.

(* ---- without JSON ---- *)
Lemma map_keys_fix (f : key -> key) (ok : key -> bool) p :
  (forall k, ok k = true -> f k = k) -> keys_all ok tt_leaf p = true -> map_keys f p = p.
Proof.
  intro Hf. induction p as [| | | |l IH|l IH|l IH] using pv_ind'; intro H; try reflexivity.
  cbn [map_keys]. f_equal. cbn [keys_all] in H. rewrite forallb_forall in H.
  apply map_id_ext. rewrite Forall_forall in *. intros [k x] Hx.
  specialize (H _ Hx). specialize (IH _ Hx). cbn [fst snd] in *. apply andb_true_iff in H as [Hk Hp].
  rewrite (Hf _ Hk), (IH Hp). reflexivity.
Qed.

Lemma str_key_ok_parse s : str_key_ok s = true -> parse_int s = None.
Proof. unfold str_key_ok. intro H. apply andb_true_iff in H as [_ H]. destruct (parse_int s); [discriminate | reflexivity]. Qed.

Lemma reint_key_fix k : dkey_ok k = true -> reint_key k = k.
Proof. destruct k; cbn; auto. intro H. rewrite (str_key_ok_parse _ H). reflexivity. Qed.
Lemma null_reint_key_fix k : dkey_ok_null k = true -> null_key (reint_key k) = k.
Proof.
  destruct k; cbn; auto. intro H. apply andb_true_iff in H as [H1 H2].
  rewrite (str_key_ok_parse _ H1). cbn. destruct (String.eqb s "null"); [discriminate | reflexivity].
Qed.

Lemma demand_elem_fix (leaf : pv -> bool) e :
  (match e with PDict _ => int_keyed leaf e | _ => leaf e end) = true -> demand_elem e = Some e.
Proof. destruct e; cbn [demand_elem]; auto. cbn [int_keyed]. intro H. rewrite (int_keys_all_int _ _ H). reflexivity. Qed.

Lemma dst_ok m p : dst m p = true -> reint m p = Some p.
Proof.
  destruct m; cbn [dst reint]; intro H.
  - reflexivity.
  - apply andb_true_iff in H as [H1 H2]. destruct p; try reflexivity.
    cbn [no_dict_type] in H1. destruct (lookup_str dict_type l); [discriminate|].
    unfold reint_keys. rewrite (map_keys_fix reint_key dkey_ok); auto using reint_key_fix.
  - unfold null_keys, reint_keys. rewrite map_keys_comp.
    rewrite (map_keys_fix _ dkey_ok_null); auto using null_reint_key_fix.
  - destruct p; try discriminate. cbn [int_keyed] in H. rewrite (int_keys_all_int _ _ H). reflexivity.
  - destruct p; try discriminate; [reflexivity|]. cbn [demand_list_ok] in H.
    rewrite opt_map_id; [reflexivity|]. rewrite forallb_forall in H. rewrite Forall_forall. intros e He.
    apply (demand_elem_fix tt_leaf). apply H. exact He.
Qed.

(* ---- through JSON ---- *)
Definition jkey (k : key) : key := KStr (key_str k).

Lemma keys_all_json (f : key -> key) (ok : key -> bool) p :
  (forall k, ok k = true -> f (jkey k) = k) -> keys_all ok jst_pass p = true -> map_keys f (json_dump_load p) = p.
Proof.
  intro Hf. induction p as [| | | |l IH|l IH|l IH] using pv_ind'; intro H; try reflexivity.
  - cbn [keys_all] in H. rewrite (jst_pass_ok _ H). reflexivity.
  - discriminate.
  - rewrite json_dump_load_dict. cbn [map_keys]. rewrite map_map. f_equal. cbn [keys_all] in H. rewrite forallb_forall in H.
    apply map_id_ext. rewrite Forall_forall in *. intros [k x] Hx.
    specialize (H _ Hx). specialize (IH _ Hx). cbn [fst snd] in *. apply andb_true_iff in H as [Hk Hp].
    fold (jkey k). rewrite (Hf _ Hk), (IH Hp). reflexivity.
Qed.

Lemma reint_jkey k : jkey_ok k = true -> reint_key (jkey k) = k.
Proof.
  destruct k; cbn [jkey_ok jkey key_str reint_key]; try discriminate.
  - intros _. rewrite parse_print. reflexivity.
  - intro H. rewrite (str_key_ok_parse _ H). reflexivity.
Qed.
Lemma parse_null : parse_int "null" = None.
Proof. vm_compute. reflexivity. Qed.
Lemma null_reint_jkey k : jkey_ok_null k = true -> null_key (reint_key (jkey k)) = k.
Proof.
  destruct k; cbn [jkey_ok_null dkey_ok_null jkey key_str reint_key].
  - intros _. rewrite parse_print. reflexivity.
  - intro H. apply andb_true_iff in H as [H1 H2]. rewrite (str_key_ok_parse _ H1). cbn [null_key].
    destruct (String.eqb s "null"); [discriminate | reflexivity].
  - intros _. rewrite parse_null. reflexivity.
Qed.

Lemma int_keys_json l :
  forallb (fun kx => key_is_int (fst kx) && jst_pass (snd kx)) l = true ->
  int_keys (map (fun kx => (KStr (key_str (fst kx)), json_dump_load (snd kx))) l) = Some l.
Proof.
  induction l as [|[k x] r IH]; cbn [forallb int_keys map fst snd]; [reflexivity|].
  intro H. apply andb_true_iff in H as [H1 H2]. apply andb_true_iff in H1 as [Hk Hx].
  destruct k; try discriminate. cbn [int_of_key key_str]. rewrite parse_print, (IH H2), (jst_pass_ok _ Hx). reflexivity.
Qed.

Lemma demand_elem_json e :
  (match e with PDict _ => int_keyed jst_pass e | _ => jst_pass e end) = true -> demand_elem (json_dump_load e) = Some e.
Proof.
  destruct e; intro H; try (rewrite (jst_pass_ok _ H); reflexivity).
  rewrite json_dump_load_dict. cbn [demand_elem]. cbn [int_keyed] in H. rewrite (int_keys_json _ H). reflexivity.
Qed.

Lemma lookup_json_none s l :
  lookup_str s l = None -> parse_int s = None -> s <> "null" ->
  lookup_str s (map (fun kx => (KStr (key_str (fst kx)), json_dump_load (snd kx))) l) = None.
Proof.
  intros H Hp Hn. unfold lookup_str in *. induction l as [|[k x] r IH]; cbn [map lookup fst snd] in *; [reflexivity|].
  destruct (key_eqb (KStr s) k) eqn:E; [discriminate|].
  destruct k as [z|s'|]; cbn [key_str key_eqb] in *.
  - destruct (String.eqb s (z_str z)) eqn:E2; [|auto]. apply String.eqb_eq in E2. subst. rewrite parse_print in Hp. discriminate.
  - rewrite E. auto.
  - destruct (String.eqb s "null") eqn:E2; [|auto]. apply String.eqb_eq in E2. contradiction.
Qed.

Lemma jst_ok m p : jst m p = true -> reint m (json_dump_load p) = Some p.
Proof.
  destruct m; cbn [jst reint]; intro H.
  - rewrite (jst_pass_ok _ H). reflexivity.
  - apply andb_true_iff in H as [H1 H2]. destruct p; try (cbn [keys_all] in H2; rewrite (jst_pass_ok _ H2); reflexivity).
    pose proof (keys_all_json reint_key jkey_ok (PDict l) reint_jkey H2) as E.
    rewrite json_dump_load_dict in *. cbn [no_dict_type] in H1.
    destruct (lookup_str dict_type l) eqn:El; [discriminate|].
    rewrite (lookup_json_none _ _ El); [| vm_compute; reflexivity | discriminate].
    unfold reint_keys. rewrite E. reflexivity.
  - unfold null_keys, reint_keys. rewrite map_keys_comp.
    rewrite (keys_all_json _ jkey_ok_null); auto using null_reint_jkey.
  - destruct p; try discriminate. cbn [int_keyed] in H. rewrite json_dump_load_dict. rewrite (int_keys_json _ H). reflexivity.
  - destruct p; try discriminate; [reflexivity|]. cbn [demand_list_ok] in H. rewrite json_dump_load_list.
    assert (E : opt_map demand_elem (map json_dump_load l) = Some l).
    { rewrite forallb_forall in H. induction l as [|e r IH]; [reflexivity|]. cbn [map opt_map].
      rewrite (demand_elem_json e (H e (or_introl eq_refl))), IH; [reflexivity|]. intros y Hy. apply H. right. exact Hy. }
    rewrite E. reflexivity.
Qed.

(* ================================================================================================== *)
(* Part 2: objects — induction over the schema *)

Section schema_ind'.
  Variable P : schema -> Prop.
  Hypothesis HPlain : forall m, P (SPlain m).
  Hypothesis HGetter : forall m, P (SGetter m).
  Hypothesis HRef : P SRef.
  Hypothesis HRefOwner : P SRefOwner.
  Hypothesis HRefDrop : P SRefDrop.
  Hypothesis HBacklink : P SBacklink.
  Hypothesis HSkip : P SSkip.
  Hypothesis HObjAttr : forall mk nm c, P c -> P (SObjAttr mk nm c).
  Hypothesis HObjList : forall c, P c -> P (SObjList c).
  Hypothesis HClass : forall idx strip attrs, Forall (fun x => P (fst (snd x))) attrs -> P (SClass idx strip attrs).
  Fixpoint schema_ind' (s : schema) : P s :=
    match s with
    | SPlain m => HPlain m
    | SGetter m => HGetter m
    | SRef => HRef | SRefOwner => HRefOwner | SRefDrop => HRefDrop | SBacklink => HBacklink | SSkip => HSkip
    | SObjAttr mk nm c => HObjAttr mk nm c (schema_ind' c)
    | SObjList c => HObjList c (schema_ind' c)
    | SClass idx strip attrs =>
        HClass idx strip attrs
          ((fix go (l : list (string * (schema * pv))) : Forall (fun x => P (fst (snd x))) l :=
              match l with
              | [] => Forall_nil _
              | x :: r => Forall_cons x (match x as x0 return P (fst (snd x0)) with (a, (sa, da)) => schema_ind' sa end) (go r)
              end) attrs)
    end.
End schema_ind'.

(* the inner fixpoints of Codec.v as stand-alone functions *)
Definition enc_fields (strip : bool) :=
  fix go (al : list (string * (schema * pv))) (fl : list (string * val)) : list (key * pv) :=
    match al, fl with
    | (a, (sa, _)) :: al', (_, va) :: fl' =>
        (if is_skip sa then [] else [(KStr (keyname strip a), encode sa va)]) ++ go al' fl'
    | _, _ => []
    end.
Definition dec_fields (strip : bool) (owner' : option Z) (l : list (key * pv)) :=
  fix go (al : list (string * (schema * pv))) : list (string * val) :=
    match al with
    | [] => []
    | (a, (sa, da)) :: al' => (a, decode sa owner' da (lookup_str (keyname strip a) l)) :: go al'
    end.
Definition forget_fields (owner' : option Z) :=
  fix go (al : list (string * (schema * pv))) (fl : list (string * val)) : list (string * val) :=
    match al, fl with
    | (a, (sa, _)) :: al', (_, va) :: fl' => (a, forget sa owner' va) :: go al' fl'
    | _, _ => []
    end.
Definition conf_fields (stable : rmode -> pv -> bool) (owner' : option Z) :=
  fix all (al : list (string * (schema * pv))) (fl : list (string * val)) : Prop :=
    match al, fl with
    | [], [] => True
    | (a, (sa, _)) :: al', (a', va) :: fl' => a = a' /\ conforms stable sa owner' va /\ all al' fl'
    | _, _ => False
    end.
Definition wf_fields :=
  fix all (al : list (string * (schema * pv))) : Prop :=
    match al with [] => True | (_, (sa, _)) :: al' => wf_schema sa /\ all al' end.
Definition dec_dict (c : schema) (owner : option Z) :=
  fix go (l : list (key * pv)) : option (list (Z * val)) :=
    match l with
    | [] => Some []
    | (k, x) :: r =>
        if key_eqb k (KStr dict_type) then go r
        else match int_of_key k, go r with
             | Some z, Some t => Some ((z, decode c owner PNone (Some x)) :: t)
             | _, _ => None
             end
    end.
Definition conf_dict (stable : rmode -> pv -> bool) (c : schema) (owner : option Z) :=
  fix all (l : list (Z * val)) : Prop :=
    match l with [] => True | (_, o) :: r => (is_obj o /\ conforms stable c owner o) /\ all r end.
Definition conf_list (stable : rmode -> pv -> bool) (c : schema) (owner : option Z) :=
  fix all (l : list val) : Prop := match l with [] => True | o :: r => conforms stable c owner o /\ all r end.

Lemma encode_class idx strip attrs fields :
  encode (SClass idx strip attrs) (VObj fields) = PDict (enc_fields strip attrs fields).
Proof. reflexivity. Qed.
Lemma decode_class idx strip attrs owner dflt l :
  decode (SClass idx strip attrs) owner dflt (Some (PDict l)) =
  VObj (dec_fields strip (if idx then pv_index (lookup_str (keyname strip index_attr) l) else owner) l attrs).
Proof. reflexivity. Qed.
Lemma forget_class idx strip attrs owner fields :
  forget (SClass idx strip attrs) owner (VObj fields) =
  VObj (forget_fields (if idx then val_index fields else owner) attrs fields).
Proof. reflexivity. Qed.
Lemma conforms_class stable idx strip attrs owner fields :
  conforms stable (SClass idx strip attrs) owner (VObj fields) =
  ((idx = true -> val_index fields <> None) /\ conf_fields stable (if idx then val_index fields else owner) attrs fields).
Proof. reflexivity. Qed.
Lemma wf_class idx strip attrs :
  wf_schema (SClass idx strip attrs) =
  (NoDup (attr_keys strip attrs) /\ ~ In dict_type (attr_keys strip attrs) /\
   (idx = true -> exists dv, assoc index_attr attrs = Some (SPlain RPass, dv)) /\ wf_fields attrs).
Proof. reflexivity. Qed.
Lemma decode_objattr_pk nm c owner dflt l :
  is_pk l = true ->
  decode (SObjAttr MarkerYes nm c) owner dflt (Some (PDict l)) =
  match dec_dict c owner l with Some r => VObjDict r | None => VErr end.
Proof. intro H. cbn [decode]. rewrite H. reflexivity. Qed.
Lemma decode_objattr_sg nm c owner dflt l :
  is_pk l = false ->
  decode (SObjAttr MarkerYes nm c) owner dflt (Some (PDict l)) = decode c owner PNone (Some (PDict l)).
Proof. intro H. cbn [decode]. rewrite H. reflexivity. Qed.
Lemma conforms_objdict stable mk nm c owner l :
  conforms stable (SObjAttr mk nm c) owner (VObjDict l) = (mk = MarkerYes /\ conf_dict stable c owner l).
Proof. reflexivity. Qed.
Lemma conforms_objlist stable c owner l :
  conforms stable (SObjList c) owner (VObjList l) = conf_list stable c owner l.
Proof. reflexivity. Qed.

Lemma encode_objattr_yes nm c fields :
  encode (SObjAttr MarkerYes nm c) (VObj fields) = add_marker sg_marker (encode c (VObj fields)).
Proof. reflexivity. Qed.
Lemma encode_objattr_no nm c fields : encode (SObjAttr MarkerNo nm c) (VObj fields) = encode c (VObj fields).
Proof. reflexivity. Qed.
Lemma encode_objattr_dict mk nm c l :
  encode (SObjAttr mk nm c) (VObjDict l) = PDict (map (fun ko => (KInt (fst ko), encode c (snd ko))) l ++ [marker_entry pk_marker]).
Proof. reflexivity. Qed.
Lemma encode_objlist c l : encode (SObjList c) (VObjList l) = PList (map (encode c) l).
Proof. reflexivity. Qed.
Lemma forget_objattr_obj mk nm c owner fields : forget (SObjAttr mk nm c) owner (VObj fields) = forget c owner (VObj fields).
Proof. reflexivity. Qed.
Lemma forget_objattr_dict mk nm c owner l :
  forget (SObjAttr mk nm c) owner (VObjDict l) = VObjDict (map (fun ko => (fst ko, forget c owner (snd ko))) l).
Proof. reflexivity. Qed.
Lemma forget_objlist c owner l : forget (SObjList c) owner (VObjList l) = VObjList (map (forget c owner) l).
Proof. reflexivity. Qed.
Lemma decode_objattr_no nm c owner dflt l :
  decode (SObjAttr MarkerNo nm c) owner dflt (Some (PDict l)) = decode c owner PNone (Some (PDict l)).
Proof. reflexivity. Qed.
Lemma decode_objlist c owner dflt l :
  decode (SObjList c) owner dflt (Some (PList l)) = VObjList (map (fun x => decode c owner PNone (Some x)) l).
Proof. reflexivity. Qed.

Section RoundTrip.
(* T = what happens to the dict between to_dict and from_dict: nothing, or json.dumps + json.loads *)
Variable T : pv -> pv.
Variable tkey : key -> key.
Variable stable : rmode -> pv -> bool.
Hypothesis T_dict : forall l, T (PDict l) = PDict (map (fun kx => (tkey (fst kx), T (snd kx))) l).
Hypothesis T_none : T PNone = PNone.
Hypothesis T_num : forall q, T (PNum q) = PNum q.
Hypothesis T_str : forall s, T (PStr s) = PStr s.
Hypothesis T_list : forall l, T (PList l) = PList (map T l).
Hypothesis tkey_str : forall s, tkey (KStr s) = KStr s.
Hypothesis tkey_int : forall z, int_of_key (tkey (KInt z)) = Some z.
Hypothesis stable_ok : forall m p, stable m p = true -> reint m (T p) = Some p.

Definition encT (l : list (key * pv)) : list (key * pv) := map (fun kx => (tkey (fst kx), T (snd kx))) l.

Lemma encT_app l1 l2 : encT (l1 ++ l2) = encT l1 ++ encT l2.
Proof. apply map_app. Qed.

Lemma enc_fields_keys strip al : forall fl k,
  In k (map fst (encT (enc_fields strip al fl))) -> exists a, In a (attr_keys strip al) /\ k = KStr a.
Proof.
  induction al as [|[a [sa da]] al' IH]; intros fl k H.
  - destruct fl; contradiction H.
  - destruct fl as [|[a' va] fl']; [contradiction H|].
    cbn [enc_fields] in H. fold (enc_fields strip) in H. rewrite encT_app, map_app, in_app_iff in H. destruct H as [H|H].
    + destruct (is_skip sa); [contradiction H|]. cbn in H. destruct H as [H|[]]. rewrite tkey_str in H.
      exists (keyname strip a). split; [left; reflexivity | auto].
    + destruct (IH _ _ H) as [b [Hb ->]]. exists b. split; [right; exact Hb | reflexivity].
Qed.

Definition RT (s : schema) : Prop :=
  wf_schema s -> forall owner v dflt, conforms stable s owner v ->
  decode s owner dflt (Some (T (encode s v))) = forget s owner v.

Lemma fields_rt strip al :
  Forall (fun x => RT (fst (snd x))) al ->
  forall fl pre extra owner',
  NoDup (attr_keys strip al) ->
  (forall a, In a (attr_keys strip al) -> ~ In (KStr a) (map fst pre)) ->
  wf_fields al -> conf_fields stable owner' al fl ->
  dec_fields strip owner' (pre ++ encT (enc_fields strip al fl) ++ extra) al = forget_fields owner' al fl.
Proof.
  induction 1 as [|[a [sa da]] al' Hhd _ IH]; intros fl pre extra owner' Hnd Hpre Hwf Hc.
  - destruct fl; [reflexivity | contradiction Hc].
  - destruct fl as [|[a' va] fl']; [contradiction Hc|].
    cbn [conf_fields] in Hc. fold (conf_fields stable owner') in Hc. destruct Hc as [<- [Hcv Hc]].
    cbn [wf_fields] in Hwf. fold wf_fields in Hwf. destruct Hwf as [Hwa Hwf].
    cbn [attr_keys map fst] in Hnd, Hpre. fold (attr_keys strip al') in Hnd, Hpre.
    inversion Hnd as [|? ? Hnotin Hnd']; subst.
    cbn [dec_fields forget_fields enc_fields]. fold (dec_fields strip owner'). fold (forget_fields owner'). fold (enc_fields strip).
    cbn [fst snd] in Hhd.
    f_equal.
    + f_equal. destruct (is_skip sa) eqn:Esk.
      * destruct sa; try discriminate. cbn in Hcv. subst va. reflexivity.
      * cbn [app]. unfold encT at 1. cbn [map fst snd]. rewrite tkey_str.
        unfold lookup_str. rewrite lookup_app_notin by (apply Hpre; left; reflexivity).
        cbn [app lookup]. rewrite key_eqb_refl. apply Hhd; assumption.
    + rewrite encT_app, <- app_assoc, app_assoc.
      apply IH; auto.
      intros b Hb. rewrite map_app, in_app_iff. intros [Hin|Hin].
      * apply (Hpre b); [right; exact Hb | exact Hin].
      * destruct (is_skip sa); [contradiction Hin|]. cbn in Hin. destruct Hin as [Hin|[]].
        rewrite tkey_str in Hin. injection Hin as <-. contradiction.
Qed.

Lemma assoc_in {A} a (l : list (string * A)) x : assoc a l = Some x -> In (a, x) l.
Proof.
  induction l as [|[b y] r IH]; cbn [assoc]; [discriminate|].
  destruct (String.eqb a b) eqn:E; intro H.
  - apply String.eqb_eq in E. injection H as ->. subst. left. reflexivity.
  - right. auto.
Qed.

Lemma index_lookup strip al : forall fl pre extra owner' dv z,
  NoDup (attr_keys strip al) ->
  ~ In (KStr (keyname strip index_attr)) (map fst pre) ->
  conf_fields stable owner' al fl ->
  assoc index_attr al = Some (SPlain RPass, dv) ->
  val_index fl = Some z ->
  pv_index (lookup_str (keyname strip index_attr) (pre ++ encT (enc_fields strip al fl) ++ extra)) = Some z.
Proof.
  induction al as [|[a [sa da]] al' IH]; intros fl pre extra owner' dv z Hnd Hpre Hc Has Hv; [discriminate|].
  destruct fl as [|[a' va] fl']; [contradiction Hc|].
  cbn [conf_fields] in Hc. fold (conf_fields stable owner') in Hc. destruct Hc as [<- [Hcv Hc]].
  cbn [attr_keys map fst] in Hnd. fold (attr_keys strip al') in Hnd. inversion Hnd as [|? ? Hnotin Hnd']; subst.
  cbn [enc_fields]. fold (enc_fields strip).
  unfold val_index in Hv. cbn [assoc] in Has, Hv. destruct (String.eqb index_attr a) eqn:E.
  - apply String.eqb_eq in E. subst a. injection Has as -> ->. cbn [is_skip app].
    destruct va as [p| | | | | | | |]; try discriminate. destruct p; try discriminate.
    unfold encT at 1. cbn [map fst snd encode]. rewrite tkey_str, T_num.
    unfold lookup_str. rewrite lookup_app_notin by exact Hpre. cbn [app lookup]. rewrite key_eqb_refl. exact Hv.
  - rewrite encT_app, <- app_assoc, app_assoc.
    apply (IH fl' _ extra owner' dv z); auto.
    rewrite map_app, in_app_iff. intros [Hin|Hin]; [contradiction|].
    destruct (is_skip sa); [contradiction Hin|]. cbn in Hin. destruct Hin as [Hin|[]].
    rewrite tkey_str in Hin. injection Hin as Hin. apply Hnotin. rewrite Hin.
    apply assoc_in in Has. apply (in_map (fun x => keyname strip (fst x))) in Has. exact Has.
Qed.

Definition RTX (s : schema) : Prop :=
  match s with
  | SClass idx strip attrs =>
      wf_schema s -> forall owner fields dflt extra, conforms stable s owner (VObj fields) ->
      (forall a, In a (attr_keys strip attrs) -> ~ In (KStr a) (map fst extra)) ->
      decode s owner dflt (Some (PDict (encT (enc_fields strip attrs fields) ++ extra))) = forget s owner (VObj fields)
  | _ => True
  end.

Lemma class_rtx idx strip attrs : Forall (fun x => RT (fst (snd x))) attrs -> RTX (SClass idx strip attrs).
Proof.
  intros IH Hwf owner fields dflt extra Hc Hextra.
  rewrite wf_class in Hwf. destruct Hwf as [Hnd [Hdt [Hidx Hwf]]].
  rewrite conforms_class in Hc. destruct Hc as [Hvi Hc].
  rewrite decode_class, forget_class.
  assert (Eo : (if idx then pv_index (lookup_str (keyname strip index_attr) (encT (enc_fields strip attrs fields) ++ extra)) else owner)
               = (if idx then val_index fields else owner)).
  { destruct idx; [|reflexivity]. destruct (Hidx eq_refl) as [dv Hdv].
    destruct (val_index fields) as [z|] eqn:Ez; [|exfalso; apply (Hvi eq_refl); reflexivity].
    apply (index_lookup strip attrs fields [] extra (Some z) dv z); auto. }
  rewrite Eo. f_equal.
  apply (fields_rt strip attrs IH fields [] extra); auto.
Qed.

Lemma RT_of_RTX idx strip attrs : RTX (SClass idx strip attrs) -> RT (SClass idx strip attrs).
Proof.
  intros H Hwf owner v dflt Hc. destruct v; try (exfalso; exact Hc).
  rewrite encode_class, T_dict. specialize (H Hwf owner fields dflt [] Hc (fun _ _ F => F)).
  fold (encT (enc_fields strip attrs fields)). rewrite app_nil_r in H. exact H.
Qed.

Lemma dict_type_not_int : parse_int dict_type = None.
Proof. vm_compute. reflexivity. Qed.
Lemma tkey_int_not_marker z : key_eqb (tkey (KInt z)) (KStr dict_type) = false.
Proof.
  apply key_eqb_neq. intro E. pose proof (tkey_int z) as H. rewrite E in H. cbn [int_of_key] in H.
  rewrite dict_type_not_int in H. discriminate.
Qed.

Lemma objdict_rt c owner l :
  (forall o, In o (map snd l) -> decode c owner PNone (Some (T (encode c o))) = forget c owner o) ->
  forall tail, dec_dict c owner tail = Some [] ->
  dec_dict c owner (encT (map (fun ko => (KInt (fst ko), encode c (snd ko))) l) ++ tail)
  = Some (map (fun ko => (fst ko, forget c owner (snd ko))) l).
Proof.
  intros H tail Ht. induction l as [|[z o] r IH]; [exact Ht|].
  cbn [map encT fst snd app dec_dict]. fold (dec_dict c owner).
  rewrite tkey_int_not_marker, tkey_int.
  fold (encT (map (fun ko => (KInt (fst ko), encode c (snd ko))) r)).
  rewrite IH by (intros o' Ho'; apply H; right; exact Ho').
  rewrite (H o) by (left; reflexivity). reflexivity.
Qed.

Lemma lookup_marker l t :
  (forall k, In k (map fst l) -> key_eqb (KStr dict_type) k = false) ->
  lookup_str dict_type (l ++ [marker_entry t]) = Some (PStr t).
Proof.
  intro H. unfold lookup_str. induction l as [|[k x] r IH]; cbn [app lookup].
  - unfold marker_entry. rewrite key_eqb_refl. reflexivity.
  - rewrite (H k) by (left; reflexivity). apply IH. intros k' Hk'. apply H. right. exact Hk'.
Qed.

Theorem roundtrip_gen s : RT s /\ RTX s.
Proof.
  induction s as [m|m| | | | | |mk nm c IH|c IH|idx strip attrs IH] using schema_ind'.
  - (* SPlain *) split; [|exact I]. intros _ owner v dflt Hc. destruct v; try (exfalso; exact Hc).
    cbn [encode decode forget]. cbn in Hc. rewrite (stable_ok _ _ Hc). reflexivity.
  - (* SGetter *) split; [|exact I]. intros _ owner v dflt Hc. destruct v; try (exfalso; exact Hc).
    cbn in Hc. destruct Hc as [<- Hs]. cbn [encode decode forget]. rewrite (stable_ok _ _ Hs). reflexivity.
  - (* SRef *) split; [|exact I]. intros _ owner v dflt Hc. destruct v; try (exfalso; exact Hc).
    cbn [encode forget]. destruct r as [z|]; cbn [enc_ref].
    + rewrite T_num. cbn. reflexivity.
    + rewrite T_none. reflexivity.
  - (* SRefOwner *) split; [|exact I]. intros _ owner v dflt Hc. destruct v; try (exfalso; exact Hc).
    cbn in Hc. subst. reflexivity.
  - (* SRefDrop *) split; [|exact I]. intros _ owner v dflt Hc. destruct v; try (exfalso; exact Hc). reflexivity.
  - (* SBacklink *) split; [|exact I]. intros _ owner v dflt Hc. cbn in Hc. subst. reflexivity.
  - (* SSkip *) split; [|exact I]. intros _ owner v dflt Hc. cbn in Hc. subst. reflexivity.
  - (* SObjAttr *) split; [|exact I]. destruct IH as [IH IHX]. intros [Hcl Hwf] owner v dflt Hc.
    destruct c as [| | | | | | | | |idx strip attrs]; try (exfalso; exact Hcl).
    destruct v as [| | | | |fields|l| |]; try (exfalso; exact Hc).
    + (* None *) cbn [encode]. rewrite T_none. cbn in Hc. cbn [decode forget]. destruct nm; [congruence | reflexivity | reflexivity].
    + (* singleton object *)
      change (conforms stable (SClass idx strip attrs) owner (VObj fields)) in Hc. destruct mk.
      * rewrite encode_objattr_yes, encode_class. cbn [add_marker]. rewrite T_dict, map_app. cbn [map marker_entry fst snd].
        rewrite tkey_str, T_str. fold (encT (enc_fields strip attrs fields)).
        assert (Hm : lookup_str dict_type (encT (enc_fields strip attrs fields) ++ [marker_entry sg_marker]) = Some (PStr sg_marker)).
        { apply lookup_marker. intros k Hk. apply enc_fields_keys in Hk as [a [Ha ->]].
          apply key_eqb_neq. intro E. injection E as E. rewrite wf_class in Hwf. destruct Hwf as [_ [Hdt _]]. apply Hdt. rewrite E. exact Ha. }
        rewrite decode_objattr_sg by (unfold is_pk; unfold marker_entry in Hm; rewrite Hm; vm_compute; reflexivity).
        rewrite forget_objattr_obj. apply (IHX Hwf owner fields PNone [marker_entry sg_marker] Hc).
        intros a Ha [Hin|[]]. injection Hin as Hin. rewrite wf_class in Hwf. destruct Hwf as [_ [Hdt _]]. apply Hdt. rewrite Hin. exact Ha.
      * rewrite encode_objattr_no, forget_objattr_obj. pose proof (IH Hwf owner (VObj fields) PNone Hc) as E.
        rewrite encode_class, T_dict in *. rewrite decode_objattr_no. exact E.
    + (* product-keyed dict of objects *)
      rewrite conforms_objdict in Hc. destruct Hc as [-> Hc].
      rewrite encode_objattr_dict, forget_objattr_dict. rewrite T_dict, map_app. cbn [map marker_entry fst snd]. rewrite tkey_str, T_str.
      fold (encT (map (fun ko => (KInt (fst ko), encode (SClass idx strip attrs) (snd ko))) l)).
      assert (Hm : lookup_str dict_type (encT (map (fun ko => (KInt (fst ko), encode (SClass idx strip attrs) (snd ko))) l) ++ [marker_entry pk_marker]) = Some (PStr pk_marker)).
      { apply lookup_marker. intros k Hk. unfold encT in Hk. rewrite !map_map in Hk. cbn [fst] in Hk.
        apply in_map_iff in Hk as [[z o] [<- _]]. cbn [fst]. pose proof (tkey_int_not_marker z) as E.
        destruct (key_eqb (KStr dict_type) (tkey (KInt z))) eqn:E2; [|reflexivity]. apply key_eqb_eq in E2. rewrite <- E2, key_eqb_refl in E. discriminate. }
      rewrite decode_objattr_pk by (unfold is_pk; unfold marker_entry in Hm; rewrite Hm; vm_compute; reflexivity).
      rewrite (objdict_rt (SClass idx strip attrs) owner l).
      * reflexivity.
      * intros o Ho. apply in_map_iff in Ho as [[z o'] [<- Hin]]. cbn [snd].
        apply (IH Hwf). clear - Hc Hin. induction l as [|[z1 o1] r IHl]; [contradiction Hin|].
        cbn [conf_dict] in Hc. fold (conf_dict stable (SClass idx strip attrs) owner) in Hc. destruct Hc as [[_ Hc1] Hc2].
        destruct Hin as [Hin|Hin]; [injection Hin as <- <-; exact Hc1 | auto].
      * cbn [dec_dict marker_entry]. rewrite key_eqb_refl. reflexivity.
  - (* SObjList *) split; [|exact I]. destruct IH as [IH _]. intros Hwf owner v dflt Hc.
    destruct v as [| | | | | | |l|]; try (exfalso; exact Hc).
    + cbn [encode]. rewrite T_none. reflexivity.
    + rewrite conforms_objlist in Hc. rewrite encode_objlist, T_list, decode_objlist, forget_objlist. rewrite !map_map. f_equal.
      induction l as [|o r IHl]; [reflexivity|]. cbn [conf_list] in Hc. fold (conf_list stable c owner) in Hc. destruct Hc as [Hc1 Hc2].
      cbn [map]. rewrite (IH Hwf owner o PNone Hc1), (IHl Hc2). reflexivity.
  - (* SClass *)
    assert (HX : RTX (SClass idx strip attrs)).
    { apply class_rtx. eapply Forall_impl; [|exact IH]. intros x [Hx _]. exact Hx. }
    split; [apply RT_of_RTX; exact HX | exact HX].
Qed.

Theorem roundtrip_T s owner v dflt :
  wf_schema s -> conforms stable s owner v -> decode s owner dflt (Some (T (encode s v))) = forget s owner v.
Proof. intros Hwf Hc. exact (proj1 (roundtrip_gen s) Hwf owner v dflt Hc). Qed.
End RoundTrip.

(* ================================================================================================== *)
(* Part 3: the two instances *)

Lemma map_pair_id {A B} (l : list (A * B)) : map (fun kx => (fst kx, snd kx)) l = l.
Proof. induction l as [|[a b] r IH]; cbn [map fst snd]; [reflexivity | rewrite IH; reflexivity]. Qed.

(* from_dict (to_dict n) = n up to the documented exceptions *)
Theorem dict_roundtrip s owner v dflt :
  wf_schema s -> conforms dst s owner v -> decode s owner dflt (Some (encode s v)) = forget s owner v.
Proof.
  intros Hwf Hc.
  apply (roundtrip_T (fun p => p) (fun k => k) dst); auto.
  - intro l. rewrite map_pair_id. reflexivity.
  - intro l. rewrite map_id. reflexivity.
  - exact dst_ok.
Qed.

(* from_dict (json.loads (json.dumps (to_dict n))) = n up to the documented exceptions *)
Theorem json_roundtrip s owner v dflt :
  wf_schema s -> conforms jst s owner v -> decode s owner dflt (Some (json_dump_load (encode s v))) = forget s owner v.
Proof.
  intros Hwf Hc.
  apply (roundtrip_T json_dump_load jkey jst); auto.
  - exact json_dump_load_dict.
  - exact json_dump_load_list.
  - intro z. unfold jkey. cbn [key_str int_of_key]. apply parse_print.
  - exact jst_ok.
Qed.

(* forget only touches the documented exceptions: on a schema without SRefDrop and NoneDefault it is the identity *)
Fixpoint no_exception (s : schema) : Prop :=
  match s with
  | SRefDrop => False
  | SObjAttr _ nm c => nm <> NoneDefault /\ no_exception c
  | SObjList c => no_exception c
  | SClass _ _ attrs => (fix all (al : list (string * (schema * pv))) : Prop :=
                           match al with [] => True | (_, (sa, _)) :: al' => no_exception sa /\ all al' end) attrs
  | _ => True
  end.
Definition noex_fields :=
  fix all (al : list (string * (schema * pv))) : Prop :=
    match al with [] => True | (_, (sa, _)) :: al' => no_exception sa /\ all al' end.

Lemma forget_id stable s : no_exception s -> forall owner v, conforms stable s owner v -> forget s owner v = v.
Proof.
  induction s as [m|m| | | | | |mk nm c IH|c IH|idx strip attrs IH] using schema_ind'; intros Hn owner v Hc; try reflexivity.
  - contradiction Hn.
  - destruct Hn as [Hnm Hn]. destruct v as [| | | | |fields|l| |]; try reflexivity.
    + cbn [forget]. destruct nm; try reflexivity. congruence.
    + rewrite forget_objattr_obj. apply IH; auto.
    + rewrite forget_objattr_dict. rewrite conforms_objdict in Hc. destruct Hc as [_ Hc]. f_equal.
      induction l as [|[z o] r IHl]; [reflexivity|]. cbn [conf_dict] in Hc. fold (conf_dict stable c owner) in Hc.
      destruct Hc as [[_ Hc1] Hc2]. cbn [map fst snd]. rewrite (IH Hn owner o Hc1), (IHl Hc2). reflexivity.
  - destruct v as [| | | | | | |l|]; try reflexivity. rewrite forget_objlist. rewrite conforms_objlist in Hc. f_equal.
    induction l as [|o r IHl]; [reflexivity|]. cbn [conf_list] in Hc. fold (conf_list stable c owner) in Hc. destruct Hc as [Hc1 Hc2].
    cbn [map]. rewrite (IH Hn owner o Hc1), (IHl Hc2). reflexivity.
  - destruct v as [| | | | |fields| | |]; try reflexivity. rewrite forget_class. rewrite conforms_class in Hc. destruct Hc as [_ Hc].
    change (noex_fields attrs) in Hn. f_equal.
    revert Hc. generalize (if idx then val_index fields else owner). intros o. revert fields.
    induction IH as [|[a [sa da]] al' Hhd _ IHal]; intros fields Hc.
    + destruct fields; [reflexivity | contradiction Hc].
    + destruct fields as [|[a' va] fl']; [contradiction Hc|]. cbn [conf_fields] in Hc. fold (conf_fields stable o) in Hc.
      destruct Hc as [<- [Hc1 Hc2]]. cbn [noex_fields] in Hn. fold noex_fields in Hn. destruct Hn as [Hn1 Hn2].
      cbn [forget_fields]. fold (forget_fields o). cbn [fst snd] in Hhd.
      rewrite (Hhd Hn1 _ _ Hc1), (IHal Hn2 _ Hc2). reflexivity.
Qed.

(* ================================================================================================== *)
(* Part 4: attribute kinds that do NOT round-trip (witnesses; the hypotheses of the theorems above are necessary) *)

(* DemandSource.to_dict writes the property values: Poisson(4) has stored standard deviation None, seen 2 *)
Definition ds_schema : schema :=
  SClass false true [("_type", (SPlain RPass, PNone)); ("_mean", (SGetter RPass, PNone)); ("_standard_deviation", (SGetter RPass, PNone))].
Definition ds_poisson4 : val :=
  VObj [("_type", VPlain (PStr "P")); ("_mean", VGet (PNum 4) (PNum 4)); ("_standard_deviation", VGet PNone (PNum 2))].
Lemma getter_roundtrip_refuted :
  wf_schema ds_schema /\ decode ds_schema None PNone (Some (encode ds_schema ds_poisson4)) <> forget ds_schema None ds_poisson4.
Proof.
  split.
  - cbn. repeat split; try (intro; discriminate).
    + repeat constructor; cbn; intuition discriminate.
    + cbn. intuition discriminate.
  - vm_compute. discriminate.
Qed.

(* a plain attribute whose from_dict does no key conversion loses int keys in JSON (state variables before the repair) *)
Lemma json_int_keys_refuted :
  decode (SPlain RPass) None PNone (Some (json_dump_load (encode (SPlain RPass) (VPlain (PDict [(KInt 20, PNum 2)])))))
  <> VPlain (PDict [(KInt 20, PNum 2)]).
Proof. vm_compute. discriminate. Qed.
(* ... while the same value survives with the key-restoring modes *)
Lemma json_int_keys_reint :
  decode (SPlain RReint) None PNone (Some (json_dump_load (encode (SPlain RReint) (VPlain (PDict [(KInt 20, PNum 2); (KInt (-1001), PNum 3)])))))
  = VPlain (PDict [(KInt 20, PNum 2); (KInt (-1001), PNum 3)]).
Proof. vm_compute. reflexivity. Qed.
Lemma json_none_key_refuted :
  decode (SPlain RReint) None PNone (Some (json_dump_load (encode (SPlain RReint) (VPlain (PDict [(KNone, PNum 2)])))))
  <> VPlain (PDict [(KNone, PNum 2)]).
Proof. vm_compute. discriminate. Qed.
Lemma json_none_key_reintnull :
  decode (SPlain RReintNull) None PNone (Some (json_dump_load (encode (SPlain RReintNull) (VPlain (PDict [(KNone, PDict [(KInt (-7), PNum 2)])])))))
  = VPlain (PDict [(KNone, PDict [(KInt (-7), PNum 2)])]).
Proof. vm_compute. reflexivity. Qed.
(* tuples come back as lists *)
Lemma json_tuple_refuted :
  decode (SPlain RReint) None PNone (Some (json_dump_load (encode (SPlain RReint) (VPlain (PTuple [PNum 1; PNum 2])))))
  <> VPlain (PTuple [PNum 1; PNum 2]).
Proof. vm_compute. discriminate. Qed.
(* a string key that looks numeric is turned into an int even without JSON (SupplyChainNode's generic branch) *)
Lemma dict_numeric_string_key_refuted :
  decode (SPlain RReint) None PNone (Some (encode (SPlain RReint) (VPlain (PDict [(KStr "20", PNum 1)]))))
  <> VPlain (PDict [(KStr "20", PNum 1)]).
Proof. vm_compute. discriminate. Qed.
(* a None-valued object attribute with from_dict raising (SupplyChainNode before the repair) *)
Lemma none_object_crash_refuted c :
  decode (SObjAttr MarkerYes NoneCrash c) None PNone (Some (encode (SObjAttr MarkerYes NoneCrash c) VNoneObj)) = VErr.
Proof. reflexivity. Qed.

(* ================================================================================================== *)
(* Part 5: the instance file *)

Definition view (i : inst) : string * pv * string := (i_desc i, json_load (i_data i), i_type i).
Definition load_rec (nm : string) (f : file) : option (string * pv * string) := option_map view (find_inst nm f).

Lemma view_reread i : view (reread i) = view i.
Proof. unfold view, reread. cbn. rewrite json_load_dump. reflexivity. Qed.
Lemma name_reread i : i_name (reread i) = i_name i.
Proof. reflexivity. Qed.

Lemma find_inst_reread nm f : find_inst nm (map reread f) = option_map reread (find_inst nm f).
Proof. induction f as [|i r IH]; cbn [map find_inst]; [reflexivity|]. rewrite name_reread. destruct (String.eqb (i_name i) nm); auto. Qed.
Lemma find_inst_app nm f g :
  find_inst nm (f ++ g) = match find_inst nm f with Some i => Some i | None => find_inst nm g end.
Proof. induction f as [|i r IH]; cbn [app find_inst]; [reflexivity|]. destruct (String.eqb (i_name i) nm); auto. Qed.
Lemma find_replace_other nm nm' new f :
  i_name new = nm -> nm <> nm' -> find_inst nm' (replace_first nm new f) = find_inst nm' f.
Proof.
  intros Hn Hne. induction f as [|i r IH]; cbn [replace_first find_inst]; [reflexivity|].
  destruct (String.eqb (i_name i) nm) eqn:E; cbn [find_inst].
  - apply String.eqb_eq in E. rewrite Hn, E.
    destruct (String.eqb nm nm') eqn:E2; [apply String.eqb_eq in E2; contradiction | reflexivity].
  - rewrite IH. reflexivity.
Qed.
Lemma find_replace_same nm new f :
  i_name new = nm -> find_inst nm f <> None -> find_inst nm (replace_first nm new f) = Some new.
Proof.
  intros Hn. induction f as [|i r IH]; cbn [replace_first find_inst]; [congruence|].
  destruct (String.eqb (i_name i) nm) eqn:E; cbn [find_inst]; intro H.
  - rewrite Hn, String.eqb_refl. reflexivity.
  - rewrite E. auto.
Qed.
Lemma names_replace nm new f : i_name new = nm -> map i_name (replace_first nm new f) = map i_name f.
Proof.
  intro Hn. induction f as [|i r IH]; cbn [replace_first map]; [reflexivity|].
  destruct (String.eqb (i_name i) nm) eqn:E; cbn [map].
  - apply String.eqb_eq in E. congruence.
  - rewrite IH. reflexivity.
Qed.

Definition new_inst nm desc data ty := {| i_name := nm; i_desc := desc; i_data := json_dump data; i_type := ty |}.

(* one save: the record of every other name is unchanged (as read back), and so is the order of names *)
Lemma save_file_other nm nm' desc data ty replace f :
  nm <> nm' -> load_rec nm' (save_file nm desc data ty replace f) = load_rec nm' f.
Proof.
  intro Hne. unfold save_file, load_rec. fold (new_inst nm desc data ty).
  assert (E : option_map view (find_inst nm' (map reread f)) = option_map view (find_inst nm' f)).
  { rewrite find_inst_reread. destruct (find_inst nm' f); cbn [option_map]; [rewrite view_reread|]; reflexivity. }
  destruct (find_inst nm (map reread f)) eqn:Ef.
  - destruct replace; [|reflexivity]. rewrite find_replace_other; auto.
  - rewrite find_inst_app. destruct (find_inst nm' (map reread f)) eqn:E2.
    + rewrite <- E. reflexivity.
    + cbn [find_inst new_inst i_name]. destruct (String.eqb nm nm') eqn:E3; [apply String.eqb_eq in E3; contradiction|]. exact E.
Qed.
Lemma save_file_find_same nm desc data ty f :
  find_inst nm (save_file nm desc data ty true f) = Some (new_inst nm desc data ty).
Proof.
  unfold save_file. fold (new_inst nm desc data ty). destruct (find_inst nm (map reread f)) eqn:Ef.
  - apply find_replace_same; [reflexivity | congruence].
  - rewrite find_inst_app, Ef. cbn [find_inst new_inst i_name]. rewrite String.eqb_refl. reflexivity.
Qed.
Lemma save_file_same nm desc data ty f :
  load_rec nm (save_file nm desc data ty true f) = Some (desc, json_dump_load data, ty).
Proof. unfold load_rec. rewrite save_file_find_same. reflexivity. Qed.
Lemma save_file_noreplace nm desc data ty f : find_inst nm f <> None -> save_file nm desc data ty false f = f.
Proof.
  intro H. unfold save_file. rewrite find_inst_reread. destruct (find_inst nm f); [reflexivity | congruence].
Qed.
Lemma save_file_names nm desc data ty replace f :
  map i_name (save_file nm desc data ty replace f) =
  match find_inst nm f with Some _ => map i_name f | None => map i_name f ++ [nm] end.
Proof.
  unfold save_file. rewrite find_inst_reread.
  assert (E : map i_name (map reread f) = map i_name f) by (rewrite map_map; reflexivity).
  destruct (find_inst nm f); cbn [option_map].
  - destruct replace; [|reflexivity]. rewrite names_replace; auto.
  - rewrite map_app, E. reflexivity.
Qed.

Lemma run_cons s o ops st : run s (o :: ops) st = run s ops (step s o st).
Proof. reflexivity. Qed.

Lemma step_other s o st nm' : op_target o <> Some nm' -> load_rec nm' (st_file (step s o st)) = load_rec nm' (st_file st).
Proof.
  intro H. destruct o as [src nm desc replace omit|nm desc data replace|nm]; cbn [step op_target] in *.
  - destruct (nth_error (st_mem st) src); [|reflexivity]. cbn [st_file]. apply save_file_other. congruence.
  - cbn [st_file]. apply save_file_other. congruence.
  - destruct (find_inst nm (st_file st)); [|reflexivity]. destruct (String.eqb (i_type i) "network"); reflexivity.
Qed.

(* over ANY sequence of save / replace / load operations that never targets nm', the record nm' is preserved *)
Theorem save_preserves_others s ops : forall st nm',
  (forall o, In o ops -> op_target o <> Some nm') ->
  load_rec nm' (st_file (run s ops st)) = load_rec nm' (st_file st).
Proof.
  induction ops as [|o r IH]; intros st nm' H; [reflexivity|].
  rewrite run_cons, IH by (intros o' Ho'; apply H; right; exact Ho').
  apply step_other. apply H. left. reflexivity.
Qed.

(* the names in the file never disappear and keep their relative order: the old name list is a prefix *)
Lemma step_names s o st : exists extra, map i_name (st_file (step s o st)) = map i_name (st_file st) ++ extra.
Proof.
  destruct o as [src nm desc replace omit|nm desc data replace|nm]; cbn [step].
  - destruct (nth_error (st_mem st) src); [|exists []; rewrite app_nil_r; reflexivity]. cbn [st_file].
    rewrite save_file_names. destruct (find_inst nm (st_file st)); [exists []; rewrite app_nil_r|exists [nm]]; reflexivity.
  - cbn [st_file]. rewrite save_file_names. destruct (find_inst nm (st_file st)); [exists []; rewrite app_nil_r|exists [nm]]; reflexivity.
  - exists []. rewrite app_nil_r. destruct (find_inst nm (st_file st)); [|reflexivity]. destruct (String.eqb (i_type i) "network"); reflexivity.
Qed.
Theorem names_preserved s ops : forall st, exists extra, map i_name (st_file (run s ops st)) = map i_name (st_file st) ++ extra.
Proof.
  induction ops as [|o r IH]; intro st; [exists []; rewrite app_nil_r; reflexivity|].
  rewrite run_cons. destruct (IH (step s o st)) as [e1 E1]. destruct (step_names s o st) as [e2 E2].
  exists (e2 ++ e1). rewrite E1, E2, app_assoc. reflexivity.
Qed.

(* objects held in memory are never altered by any sequence of operations (save works on a copy, load appends) *)
Lemma step_mem s o st : exists extra, st_mem (step s o st) = st_mem st ++ extra.
Proof.
  destruct o as [src nm desc replace omit|nm desc data replace|nm]; cbn [step].
  - destruct (nth_error (st_mem st) src); exists []; rewrite app_nil_r; reflexivity.
  - exists []. rewrite app_nil_r. reflexivity.
  - destruct (find_inst nm (st_file st)); [|exists []; rewrite app_nil_r; reflexivity].
    destruct (String.eqb (i_type i) "network"); [eexists; reflexivity | exists []; rewrite app_nil_r; reflexivity].
Qed.
Theorem save_does_not_mutate s ops : forall st i v,
  nth_error (st_mem st) i = Some v -> nth_error (st_mem (run s ops st)) i = Some v.
Proof.
  induction ops as [|o r IH]; intros st i v H; [exact H|].
  rewrite run_cons. apply IH. destruct (step_mem s o st) as [e E]. rewrite E.
  rewrite nth_error_app1; [exact H|]. apply nth_error_Some. congruence.
Qed.

(* save_instance followed by load_instance (state variables kept) returns the network up to the documented exceptions *)
Theorem save_load_roundtrip s v nm desc replace f mem :
  wf_schema s -> conforms jst s None v -> replace = true \/ find_inst nm f = None ->
  st_mem (run s [OSave (length mem) nm desc replace false; OLoad nm] {| st_mem := mem ++ [v]; st_file := f |})
  = mem ++ [v; forget s None v].
Proof.
  intros Hwf Hc Hr. cbn [run fold_left step st_mem st_file].
  rewrite nth_error_app2 by lia. rewrite Nat.sub_diag. cbn [nth_error st_mem st_file].
  assert (E : find_inst nm (save_file nm desc (encode s v) "network" replace f) = Some (new_inst nm desc (encode s v) "network")).
  { destruct Hr as [-> | Hn]; [apply save_file_find_same|].
    unfold save_file. fold (new_inst nm desc (encode s v) "network"). rewrite find_inst_reread, Hn. cbn [option_map].
    rewrite find_inst_app, find_inst_reread, Hn. cbn [option_map find_inst new_inst i_name]. rewrite String.eqb_refl. reflexivity. }
  rewrite E. cbn [new_inst i_type i_data String.eqb Ascii.eqb Bool.eqb]. cbn [st_mem].
  fold (json_dump_load (encode s v)). rewrite json_roundtrip by assumption. rewrite <- app_assoc. reflexivity.
Qed.

(* ================================================================================================== *)
(* Part 6: the executable well-formedness check is sound *)
Lemma nodupb_ok l : nodupb l = true -> NoDup l.
Proof.
  induction l as [|x r IH]; cbn [nodupb]; intro H; constructor.
  - apply andb_true_iff in H as [H _]. intro Hin. apply negb_true_iff in H.
    assert (E : existsb (String.eqb x) r = true) by (apply existsb_exists; exists x; split; [exact Hin | apply String.eqb_refl]).
    congruence.
  - apply andb_true_iff in H as [_ H]. auto.
Qed.
Definition wfb_fields :=
  fix all (al : list (string * (schema * pv))) : bool :=
    match al with [] => true | (_, (sa, _)) :: al' => wf_schemab sa && all al' end.
Theorem wf_schemab_ok s : wf_schemab s = true -> wf_schema s.
Proof.
  induction s as [m|m| | | | | |mk nm c IH|c IH|idx strip attrs IH] using schema_ind'; intro H; try exact I.
  - cbn [wf_schemab] in H. apply andb_true_iff in H as [H1 H2]. split; [destruct c; try discriminate; exact I | auto].
  - cbn [wf_schemab] in H. cbn [wf_schema]. auto.
  - change (nodupb (attr_keys strip attrs) && negb (existsb (String.eqb dict_type) (attr_keys strip attrs)) &&
            (if idx then match assoc index_attr attrs with Some (SPlain RPass, _) => true | _ => false end else true) &&
            wfb_fields attrs = true) in H.
    apply andb_true_iff in H as [H H4]. apply andb_true_iff in H as [H H3]. apply andb_true_iff in H as [H1 H2].
    rewrite wf_class. repeat split.
    + apply nodupb_ok. exact H1.
    + intro Hin. apply negb_true_iff in H2.
      assert (E : existsb (String.eqb dict_type) (attr_keys strip attrs) = true) by (apply existsb_exists; eexists; split; [exact Hin | apply String.eqb_refl]).
      congruence.
    + intros ->. destruct (assoc index_attr attrs) as [[sa dv]|]; [|discriminate].
      destruct sa; try discriminate. destruct m; try discriminate. exists dv. reflexivity.
    + clear - IH H4. induction IH as [|[a [sa da]] al' Hhd _ IHal]; [exact I|].
      cbn [wfb_fields] in H4. fold wfb_fields in H4. apply andb_true_iff in H4 as [Ha Hr].
      cbn [wf_fields]. fold wf_fields. split; [apply Hhd; exact Ha | auto].
Qed.
