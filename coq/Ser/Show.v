(* C17 — printing of model values as JSON text for the correspondence harness (py/props/c17.py reads it with
   json.loads).  Tooling only: nothing here is used in a theorem.
   Numbers are printed as the string "num/den"; tuples as {"(tuple)": [...]}; dicts as lists of [key, value] with
   keys "i:<int>", "s:<string>", "n:". Strings may only contain printable ASCII (the generator guarantees it). *)
From SV Require Import Ser.Json Ser.Codec.
Open Scope string_scope.

Definition q_show (q : Q) : string := """" ++ z_str (Qnum q) ++ "/" ++ z_str (Zpos (Qden q)) ++ """".
Fixpoint esc (s : string) : string :=
  match s with
  | EmptyString => EmptyString
  | String c r => if Ascii.eqb c """"%char then String "\"%char (String c (esc r))
                  else if Ascii.eqb c "\"%char then String "\"%char (String c (esc r))
                  else String c (esc r)
  end.
Definition str_show (s : string) : string := """" ++ esc s ++ """".
Fixpoint join (sep : string) (l : list string) : string :=
  match l with [] => "" | [x] => x | x :: r => x ++ sep ++ join sep r end.
Definition arr (l : list string) : string := "[" ++ join "," l ++ "]".
Definition key_show (k : key) : string :=
  match k with KInt z => str_show ("i:" ++ z_str z) | KStr s => str_show ("s:" ++ s) | KNone => str_show "n:" end.

Fixpoint pv_show (p : pv) : string :=
  match p with
  | PNone => "null"
  | PBool b => if b then "true" else "false"
  | PNum q => q_show q
  | PStr s => "{""(str)"":" ++ str_show s ++ "}"
  | PList l => arr (map pv_show l)
  | PTuple l => "{""(tuple)"":" ++ arr (map pv_show l) ++ "}"
  | PDict l => "{""(dict)"":" ++ arr (map (fun kx => arr [key_show (fst kx); pv_show (snd kx)]) l) ++ "}"
  end.

Fixpoint jv_show (j : jv) : string :=
  match j with
  | JNull => "null"
  | JBool b => if b then "true" else "false"
  | JNum q => q_show q
  | JStr s => "{""(str)"":" ++ str_show s ++ "}"
  | JList l => arr (map jv_show l)
  | JObj l => "{""(obj)"":" ++ arr (map (fun kx => arr [str_show (fst kx); jv_show (snd kx)]) l) ++ "}"
  end.

Definition optz_show (r : option Z) : string := match r with Some z => str_show (z_str z) | None => "null" end.
Fixpoint val_show (v : val) : string :=
  match v with
  | VPlain p => "{""VPlain"":" ++ pv_show p ++ "}"
  | VGet a b => "{""VGet"":" ++ arr [pv_show a; pv_show b] ++ "}"
  | VRef r => "{""VRef"":" ++ optz_show r ++ "}"
  | VLink => "{""VLink"":null}"
  | VNoneObj => "{""VNoneObj"":null}"
  | VObj fields => "{""VObj"":" ++ arr (map (fun av => arr [str_show (fst av); val_show (snd av)]) fields) ++ "}"
  | VObjDict l => "{""VObjDict"":" ++ arr (map (fun ko => arr [str_show (z_str (fst ko)); val_show (snd ko)]) l) ++ "}"
  | VObjList l => "{""VObjList"":" ++ arr (map val_show l) ++ "}"
  | VErr => "{""VErr"":null}"
  end.
