(* C17 — proofs about Ser/Json.v: str/int round trip, json.dumps/json.loads round trips, key rewriters. *)
From SV Require Import Ser.Json.
From Coq Require Import DecimalString Decimal DecimalZ DecimalPos Lia.
Open Scope list_scope.

(* ---- induction principles for the nested types ---- *)
Section pv_ind'.
  Variable P : pv -> Prop.
  Hypothesis HNone : P PNone.
  Hypothesis HBool : forall b, P (PBool b).
  Hypothesis HNum : forall q, P (PNum q).
  Hypothesis HStr : forall s, P (PStr s).
  Hypothesis HList : forall l, Forall P l -> P (PList l).
  Hypothesis HTuple : forall l, Forall P l -> P (PTuple l).
  Hypothesis HDict : forall l, Forall (fun kx => P (snd kx)) l -> P (PDict l).
  Fixpoint pv_ind' (p : pv) : P p :=
    match p with
    | PNone => HNone
    | PBool b => HBool b
    | PNum q => HNum q
    | PStr s => HStr s
    | PList l => HList l ((fix go (l : list pv) : Forall P l :=
                             match l with [] => Forall_nil _ | x :: r => Forall_cons _ (pv_ind' x) (go r) end) l)
    | PTuple l => HTuple l ((fix go (l : list pv) : Forall P l :=
                               match l with [] => Forall_nil _ | x :: r => Forall_cons _ (pv_ind' x) (go r) end) l)
    | PDict l => HDict l ((fix go (l : list (key * pv)) : Forall (fun kx => P (snd kx)) l :=
                             match l with [] => Forall_nil _ | x :: r => Forall_cons _ (pv_ind' (snd x)) (go r) end) l)
    end.
End pv_ind'.

Section jv_ind'.
  Variable P : jv -> Prop.
  Hypothesis HNull : P JNull.
  Hypothesis HBool : forall b, P (JBool b).
  Hypothesis HNum : forall q, P (JNum q).
  Hypothesis HStr : forall s, P (JStr s).
  Hypothesis HList : forall l, Forall P l -> P (JList l).
  Hypothesis HObj : forall l, Forall (fun kx => P (snd kx)) l -> P (JObj l).
  Fixpoint jv_ind' (j : jv) : P j :=
    match j with
    | JNull => HNull
    | JBool b => HBool b
    | JNum q => HNum q
    | JStr s => HStr s
    | JList l => HList l ((fix go (l : list jv) : Forall P l :=
                             match l with [] => Forall_nil _ | x :: r => Forall_cons _ (jv_ind' x) (go r) end) l)
    | JObj l => HObj l ((fix go (l : list (string * jv)) : Forall (fun kx => P (snd kx)) l :=
                           match l with [] => Forall_nil _ | x :: r => Forall_cons _ (jv_ind' (snd x)) (go r) end) l)
    end.
End jv_ind'.

Lemma map_id_ext {A} (f : A -> A) l : Forall (fun x => f x = x) l -> map f l = l.
Proof. induction 1 as [|x r Hx _ IH]; cbn [map]; [reflexivity | rewrite Hx, IH; reflexivity]. Qed.

(* ---- str(int) / int(str) ---- *)
Lemma parse_print z : parse_int (z_str z) = Some z.
Proof.
  unfold parse_int, z_str.
  rewrite NilZero.isi.
  - cbn [option_map]. rewrite DecimalZ.of_to. reflexivity.
  - destruct z as [|p|p]; cbn; try discriminate.
    intro H. injection H as H. exact (Unsigned.to_uint_nonnil p H).
  - destruct z as [|p|p]; cbn; try discriminate.
    intro H. injection H as H. exact (Unsigned.to_uint_nonnil p H).
Qed.

Lemma key_eqb_refl k : key_eqb k k = true.
Proof. destruct k; cbn; auto using Z.eqb_refl, String.eqb_refl. Qed.
Lemma key_eqb_eq a b : key_eqb a b = true <-> a = b.
Proof.
  destruct a, b; cbn; split; intro H; try discriminate; try reflexivity.
  - apply Z.eqb_eq in H. congruence.
  - injection H as ->. apply Z.eqb_refl.
  - apply String.eqb_eq in H. congruence.
  - injection H as ->. apply String.eqb_refl.
Qed.
Lemma key_eqb_neq a b : a <> b -> key_eqb a b = false.
Proof. intro H. destruct (key_eqb a b) eqn:E; auto. apply key_eqb_eq in E. contradiction. Qed.

(* ---- json.dumps / json.loads ---- *)
Lemma json_dump_load_dict l :
  json_dump_load (PDict l) = PDict (map (fun kx => (KStr (key_str (fst kx)), json_dump_load (snd kx))) l).
Proof. unfold json_dump_load. cbn [json_dump json_load]. rewrite map_map. reflexivity. Qed.
Lemma json_dump_load_list l : json_dump_load (PList l) = PList (map json_dump_load l).
Proof. unfold json_dump_load. cbn [json_dump json_load]. rewrite map_map. reflexivity. Qed.
Lemma json_dump_load_tuple l : json_dump_load (PTuple l) = PList (map json_dump_load l).
Proof. unfold json_dump_load. cbn [json_dump json_load]. rewrite map_map. reflexivity. Qed.

(* what is read from a file is written back unchanged *)
Lemma json_load_dump j : json_dump (json_load j) = j.
Proof.
  induction j as [| | | |l IH|l IH] using jv_ind'; cbn [json_load json_dump]; try reflexivity.
  - rewrite map_map. f_equal. apply map_id_ext. exact IH.
  - rewrite map_map. f_equal. apply map_id_ext.
    induction IH as [|[k x] r Hx _ IHr]; constructor; auto. cbn [fst snd key_str] in *. rewrite Hx. reflexivity.
Qed.
Lemma json_dump_load_idem p : json_dump_load (json_dump_load p) = json_dump_load p.
Proof. unfold json_dump_load. rewrite json_load_dump. reflexivity. Qed.

(* values without tuples whose dict keys are all strings are unchanged by JSON *)
Lemma jst_pass_ok p : jst_pass p = true -> json_dump_load p = p.
Proof.
  induction p as [| | | |l IH|l IH|l IH] using pv_ind'; intro H; try reflexivity.
  - rewrite json_dump_load_list. f_equal. cbn [jst_pass] in H. rewrite forallb_forall in H.
    apply map_id_ext. rewrite Forall_forall in *. intros x Hx. apply IH; auto.
  - discriminate.
  - rewrite json_dump_load_dict. f_equal. cbn [jst_pass] in H. rewrite forallb_forall in H.
    apply map_id_ext. rewrite Forall_forall in *. intros [k x] Hx.
    specialize (H _ Hx). specialize (IH _ Hx). cbn [fst snd] in *. apply andb_true_iff in H as [Hk Hp].
    destruct k; try discriminate. cbn [key_str]. rewrite IH; auto.
Qed.

(* ---- key rewriters ---- *)
Lemma map_keys_nondict f p : (forall l, p <> PDict l) -> map_keys f p = p.
Proof. destruct p; intros H; try reflexivity. exfalso. eapply H. reflexivity. Qed.

Lemma map_keys_comp f g p : map_keys g (map_keys f p) = map_keys (fun k => g (f k)) p.
Proof.
  induction p as [| | | |l IH|l IH|l IH] using pv_ind'; try reflexivity.
  cbn [map_keys]. rewrite map_map. f_equal. apply map_ext_in. intros [k x] Hx.
  rewrite Forall_forall in IH. specialize (IH _ Hx). cbn [fst snd] in *. rewrite IH. reflexivity.
Qed.

Lemma lookup_app_notin k l1 l2 : ~ In k (map fst l1) -> lookup k (l1 ++ l2) = lookup k l2.
Proof.
  induction l1 as [|[k' x] r IH]; cbn [List.app lookup map fst In]; intro H; auto.
  rewrite (key_eqb_neq k k').
  - apply IH. tauto.
  - intro; subst; tauto.
Qed.
Lemma lookup_none_notin k l : lookup k l = None <-> ~ In k (map fst l).
Proof.
  induction l as [|[k' x] r IH]; cbn [lookup map fst In]; [tauto|].
  destruct (key_eqb k k') eqn:E.
  - apply key_eqb_eq in E. subst. split; [discriminate | intro H; exfalso; apply H; auto].
  - rewrite IH. split; intro H; [intros [H1|H1]; [subst; rewrite key_eqb_refl in E; discriminate | auto] | auto].
Qed.
