(* C17 — JSON values, Python dict trees and what json.dumps / json.loads does to them.
   Executable model, no proofs (see Json_proofs.v).

   [pv]  = the Python value trees that to_dict() builds: None, bool, number, str, list, tuple, dict whose keys
           are ints (product / node indices), None (the external supplier / customer) or strings.
   [jv]  = the JSON text's abstract syntax.
   json.dumps: dict keys int -> decimal string, None -> "null", str unchanged; tuples become arrays.
   json.loads: objects become dicts with string keys, arrays become lists.
   Numbers are exact rationals (no int / float distinction: Python's == does not make one either).
   Not modelled: NaN / Infinity, sets (no attribute of the modelled classes is set-valued), non-string/int/None keys,
   json.loads dropping duplicate keys (dicts are association lists; every dict the model builds has distinct keys). *)
From Coq Require Export String Ascii List ZArith QArith Bool.
From Coq Require Import DecimalString Decimal DecimalZ DecimalPos.
Export ListNotations.
Open Scope string_scope.

Inductive jv :=
| JNull | JBool (b : bool) | JNum (q : Q) | JStr (s : string) | JList (l : list jv) | JObj (l : list (string * jv)).

Inductive key := KInt (z : Z) | KStr (s : string) | KNone.

Inductive pv :=
| PNone | PBool (b : bool) | PNum (q : Q) | PStr (s : string)
| PList (l : list pv) | PTuple (l : list pv) | PDict (l : list (key * pv)).

(* --- str(int) and int(str) ------------------------------------------------------------------ *)
Definition z_str (z : Z) : string := NilZero.string_of_int (Z.to_int z).
(* accepts exactly  -?[0-9]+  (what str(int) produces, plus leading zeros, which Python's int() also accepts) *)
Definition parse_int (s : string) : option Z := option_map Z.of_int (NilZero.int_of_string s).

(* conservative over-approximation of "float(s) succeeds" (helpers.is_numeric_string): every string accepted by
   Python's float() contains an ASCII digit, a non-ASCII byte (Unicode digits), or is a spelling of nan / inf /
   infinity (then it consists of the letters below, signs and blanks only). *)
Definition is_digit (c : ascii) : bool := let n := nat_of_ascii c in (48 <=? n)%nat && (n <=? 57)%nat.
Definition non_ascii (c : ascii) : bool := (128 <=? nat_of_ascii c)%nat.
Definition naninf_char (c : ascii) : bool :=
  existsb (Ascii.eqb c) (list_ascii_of_string "nNaAiIfFtTyY+- ") || (nat_of_ascii c <? 32)%nat.
Definition maybe_numeric (s : string) : bool :=
  let cs := list_ascii_of_string s in
  existsb (fun c => is_digit c || non_ascii c) cs || (negb (Nat.eqb (length cs) 0) && forallb naninf_char cs).

(* --- dict keys ---------------------------------------------------------------------------------- *)
Definition key_str (k : key) : string :=
  match k with KInt z => z_str z | KStr s => s | KNone => "null" end.

Definition key_eqb (a b : key) : bool :=
  match a, b with
  | KInt x, KInt y => Z.eqb x y
  | KStr x, KStr y => String.eqb x y
  | KNone, KNone => true
  | _, _ => false
  end.

Fixpoint lookup (k : key) (l : list (key * pv)) : option pv :=
  match l with
  | [] => None
  | (k', x) :: r => if key_eqb k k' then Some x else lookup k r
  end.
Definition lookup_str (s : string) (l : list (key * pv)) : option pv := lookup (KStr s) l.

(* --- json.dumps / json.loads ---------------------------------------------------------------------- *)
Fixpoint json_dump (p : pv) : jv :=
  match p with
  | PNone => JNull
  | PBool b => JBool b
  | PNum q => JNum q
  | PStr s => JStr s
  | PList l => JList (map json_dump l)
  | PTuple l => JList (map json_dump l)
  | PDict l => JObj (map (fun kx => (key_str (fst kx), json_dump (snd kx))) l)
  end.

Fixpoint json_load (j : jv) : pv :=
  match j with
  | JNull => PNone
  | JBool b => PBool b
  | JNum q => PNum q
  | JStr s => PStr s
  | JList l => PList (map json_load l)
  | JObj l => PDict (map (fun kx => (KStr (fst kx), json_load (snd kx))) l)
  end.

Definition json_dump_load (p : pv) : pv := json_load (json_dump p).

(* --- helpers.replace_dict_numeric_string_keys / replace_dict_null_keys ---------------------------- *)
(* Faithful for keys that are ints, None, canonical decimal strings, or strings that float() rejects; the
   remaining strings ("1.5", "1e3", " 7", "+7", "1_0", "nan": float key or ValueError in Python) are excluded by
   [key_ok] in every theorem. *)
Definition reint_key (k : key) : key :=
  match k with
  | KStr s => match parse_int s with Some z => KInt z | None => KStr s end
  | _ => k
  end.
Definition null_key (k : key) : key :=
  match k with KStr s => if String.eqb s "null" then KNone else k | _ => k end.

Fixpoint map_keys (f : key -> key) (p : pv) : pv :=         (* recurses into dict values that are dicts only *)
  match p with
  | PDict l => PDict (map (fun kx => (f (fst kx), map_keys f (snd kx))) l)
  | _ => p
  end.
Definition reint_keys : pv -> pv := map_keys reint_key.
Definition null_keys : pv -> pv := map_keys null_key.

(* int(k) for a dict key *)
Definition int_of_key (k : key) : option Z :=
  match k with KInt z => Some z | KStr s => parse_int s | KNone => None end.

Definition q_to_Z (q : Q) : option Z := if Pos.eqb (Qden q) 1 then Some (Qnum q) else None.
Definition pv_index (p : option pv) : option Z :=
  match p with Some (PNum q) => q_to_Z q | _ => None end.

(* --- stability predicates used as hypotheses ------------------------------------------------------ *)
(* a key that survives  str -> re-intification : an int, or a string that does not look numeric *)
Definition key_ok (k : key) : bool :=
  match k with KInt _ => true | KStr s => negb (maybe_numeric s) | KNone => false end.
Definition key_ok_null (k : key) : bool :=
  match k with KInt _ => true | KStr s => negb (maybe_numeric s) && negb (String.eqb s "null") | KNone => true end.
Definition key_is_str (k : key) : bool := match k with KStr _ => true | _ => false end.
Definition key_is_int (k : key) : bool := match k with KInt _ => true | _ => false end.

(* p is unchanged by json_dump_load: no tuples, every dict key a string *)
Fixpoint jst_pass (p : pv) : bool :=
  match p with
  | PList l => forallb jst_pass l
  | PTuple _ => false
  | PDict l => forallb (fun kx => key_is_str (fst kx) && jst_pass (snd kx)) l
  | _ => true
  end.
