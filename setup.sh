#!/bin/bash
# Build the Coq development from files on disk only (full .vo build, no -vos), then scan for forbidden constructs.
set -e -o pipefail
cd /verif/coq
mkdir -p /verif/build /verif/evidence /verif/replays
export PYTHONPATH=/repo/src:/verif/py PYTHONHASHSEED=0 PYTHONWARNINGS=ignore PYTHONDONTWRITEBYTECODE=1
# regenerate translated definitions from /repo's current source (fail-closed translator)
if [ -f /verif/py/py2v.py ]; then /venv/bin/python /verif/py/py2v.py || echo "translator reported errors (checks will report them)"; fi
/venv/bin/python /verif/py/mkcoqproject.py
coq_makefile -f _CoqProject -o Makefile
timeout 3000 make -k -j16 > /verif/build/make.log 2>&1 || echo "coq build reported errors (the affected checks will report them)"; tail -30 /verif/build/make.log
if ! /venv/bin/python -c "
import sys; sys.path.insert(0,'/verif/py'); import vlib
h = vlib.forbidden_scan()
print('\n'.join(h)); sys.exit(1 if h else 0)"; then echo "forbidden construct found"; exit 1; fi
echo "setup ok"
